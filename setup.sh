#!/bin/bash
# Offline setup: make sure hypothesis is importable by /venv/bin/python (installs from the local wheelhouse if missing).
export PIP_NO_INDEX=1
cd "$(dirname "$0")" || exit 1
if ! /venv/bin/python -c "import hypothesis" >/dev/null 2>&1; then
    /venv/bin/python -m pip install -q --no-index --find-links /opt/veriftools/wheels hypothesis || exit 1
fi
/venv/bin/python -c "import hypothesis, sys; sys.path.insert(0, '/repo'); import hl7apy; print('setup ok: hypothesis', hypothesis.__version__, 'hl7apy from', hl7apy.__file__)"
