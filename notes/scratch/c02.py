import hl7apy, collections
from hl7apy import load_library
from hl7apy.core import Segment
from hl7apy.parser import parse_segment
bad = collections.defaultdict(list); uninst=[]
tot=0
for v in sorted(hl7apy.SUPPORTED_LIBRARIES):
    lib = load_library(v)
    for sname, sref in sorted(lib.SEGMENTS.items()):
        try:
            Segment(sname, version=v)
        except Exception as e:
            uninst.append((v,sname,type(e).__name__, str(e)[:60])); continue
        for c in sref[1]:
            fname = c[0]; i = int(fname.split('_')[1])
            tot+=1
            try:
                s = Segment(sname, version=v)
                setattr(s, fname, 'X')
                er = s.to_er7()
                parts = er.split('|')
                exp_idx = i if sname!='MSH' else i-1
                ok = len(parts)==exp_idx+1 and parts[exp_idx]=='X' and all(p=='' for p in parts[1:exp_idx])
                if sname=='MSH': ok = None
                if ok is False:
                    bad[(v,sname)].append((fname, er))
                # parse
                if sname!='MSH':
                    txt = sname + '|'*i + 'X'
                    p = parse_segment(txt, version=v)
                    ch = [c2.name for c2 in p.children]
                    if ch!=[fname] or p.to_er7()!=txt:
                        bad[(v,sname,'parse')].append((fname, ch, p.to_er7()))
            except Exception as e:
                bad[(v,sname,'exc')].append((fname, type(e).__name__, str(e)[:80]))
print(tot)
print(uninst)
n=0
for k,vv in bad.items():
    n+=len(vv)
    print(k, len(vv), vv[:2])
print(n)
