import sys, threading, time, random
from hl7apy.parser import parse_message
from hl7apy.factories import datatype_factory
import hl7apy
class Sched:
    """token passing at line granularity inside hl7apy code"""
    def __init__(self, n, schedule):
        self.n=n; self.cv=threading.Condition(); self.cur=0; self.alive=[True]*n
        self.schedule=list(schedule); self.pos=0; self.budget=self.schedule[0][1] if schedule else 10**9
        self.cur = self.schedule[0][0] % n if schedule else 0
        self.switches=0
    def _next(self):
        # called with lock; choose next runnable thread
        self.pos+=1
        if self.pos < len(self.schedule):
            t,b=self.schedule[self.pos]; t%=self.n
        else:
            t=(self.cur+1)%self.n; b=10**9 if False else 7
        for k in range(self.n):
            c=(t+k)%self.n
            if self.alive[c]: self.cur=c; self.budget=b; self.switches+=1; self.cv.notify_all(); return
    def step(self, i):
        with self.cv:
            while self.cur!=i: self.cv.wait()
            self.budget-=1
            if self.budget<=0:
                self._next()
                while self.cur!=i: self.cv.wait()
    def done(self,i):
        with self.cv:
            self.alive[i]=False
            if self.cur==i: self._next()
    def start(self,i):
        with self.cv:
            while self.cur!=i: self.cv.wait()
def run(tasks, schedule):
    n=len(tasks); S=Sched(n,schedule); out=[None]*n
    def tracer_for(i):
        def local(frame, event, arg):
            if event=='line': S.step(i)
            return local
        def glob(frame, event, arg):
            if 'hl7apy' in frame.f_code.co_filename: return local
            return None
        return glob
    def worker(i):
        S.start(i)
        sys.settrace(tracer_for(i))
        try:
            try: out[i]=('ok',tasks[i]())
            except Exception as e: out[i]=('exc',type(e).__name__,str(e)[:80])
        finally:
            sys.settrace(None); S.done(i)
    th=[threading.Thread(target=worker,args=(i,)) for i in range(n)]
    for t in th: t.start()
    for t in th: t.join(60)
    return out, S.switches
if __name__=='__main__':
    msgs=['MSH|^~\\&|A|B|C|D|20200101||ADT^A01^ADT_A01|1|P|%s\rEVN|A|20200101\rPID|1||X^^^Y||N^M|||F\rPV1|1|I'%v for v in ('2.3','2.5','2.7')]
    tasks=[(lambda m=m: parse_message(m).to_er7()) for m in msgs]+[lambda: datatype_factory('DT','20200101','2.5',1).to_er7()]
    solo=[('ok',t()) for t in tasks]
    rnd=random.Random(1)
    t0=time.time()
    for k in range(20):
        sch=[(rnd.randrange(4), rnd.randint(1,9)) for _ in range(3000)]
        out,sw=run(tasks,sch)
        assert out==solo,(out,solo)
    print('20 runs', time.time()-t0, 'switches', sw)
