import hl7apy, collections, random
from hl7apy import load_library
from hl7apy.core import *
BAD={'ANYHL7SEGMENT','ANYZSEGMENT','ORO','QRD','QRF','URD','URS'}
rnd=random.Random(1)
def listing(e):
    return [(type(c).__name__, c.name, listing(c)) for c in e.children]
def count(e): return sum(1+count(c) for c in e.children)
res=collections.Counter(); ex={}
def note(k,v): res[k]+=1; ex.setdefault(k,v)
LEAF={'NM':'1','SI':'1','DT':'20200101','TM':'1200','DTM':'20200101'}
for v in ('2.3','2.5','2.8.2'):
    lib=load_library(v)
    for sname,sref in sorted(lib.SEGMENTS.items()):
        if sname in BAD or sname=='MSH': continue
        for c in sref[1]:
            fname,fref=c[0],c[1]; dt=fref[2]
            s=Segment(sname,version=v)
            snap=(s.to_er7(), listing(s))
            try:
                p=getattr(s,fname); len(p); list(p); repr(p)
                chain=[fname]
                target=None
                if lib.is_base_datatype(dt) or dt=='varies' or fref[0]=='leaf':
                    # write directly
                    pass
                else:
                    st=fref[1]; j=rnd.randrange(len(st)); cname=st[j][0]; cdt=st[j][1][2]
                    q=getattr(p,cname); len(q); list(q); repr(q); chain.append(cname)
                    q2=getattr(p, '%s_%d'%(fname,j+1)); 
                    if q2 is not q: note('proxy-differs',(v,fname,cname))
                    if not lib.is_base_datatype(cdt) and cdt in lib.DATATYPES_STRUCTS:
                        st2=lib.DATATYPES_STRUCTS[cdt]; k=rnd.randrange(len(st2)); scname=st2[k][0]
                        r=getattr(q,scname); len(r); list(r); repr(r); chain.append(scname)
                s.to_er7(); s.validate(return_errors=True)
                if (s.to_er7(), listing(s))!=snap: note('READ-WROTE',(v,sname,chain, listing(s))); continue
                # write
                before=count(s)
                obj=s
                for n in chain[:-1]: obj=getattr(obj,n)
                # leaf dt
                setattr(obj, chain[-1], 'A' if True else None)
                after=count(s)
                # expected new elements: chain length + implicit children down to subcomponent
                note(('created',len(chain),after-before),(v,sname,chain,s.to_er7()))
                # traversal indexes empty?
                def trav(e):
                    t=dict(e.children.traversal_indexes)
                    return bool(t) or any(trav(c) for c in e.children)
                if trav(s): note('TRAV-LEFT',(v,sname,chain))
                setattr(obj, chain[-1], 'A')
                if count(s)!=after: note('SECOND-WRITE-CREATED',(v,sname,chain,count(s),after))
            except Exception as e:
                note(('exc',type(e).__name__),(v,sname,fname,str(e)[:100]))
for k in sorted(res,key=str): print(k,res[k],repr(ex[k])[:300])
