import sys, collections, random, time
from conf3 import *
from hl7apy.parser import parse_message
from hl7apy.core import Segment
rnd=random.Random(int(sys.argv[1]) if len(sys.argv)>1 else 1)
def lshape(el): return [c.name if isinstance(c,Segment) else (c.name,lshape(c)) for c in el.children]
res=collections.Counter(); ex={}; kinds=collections.Counter()
t0=time.time()
for v in sorted(hl7apy.SUPPORTED_LIBRARIES):
    lib=load_library(v)
    names=[m for m,r in sorted(lib.MESSAGES.items()) if r[0]=='sequence' and r[1]]
    for mname in rnd.sample(names, min(40,len(names))):
        mref=lib.MESSAGES[mname]
        if dupsib(mref): res['skip-dupsib']+=1; continue
        places=name_places(mref)
        t=tree(rnd,mref,places,0.5)
        segs=flat(t)
        if not segs or segs[0][0]!='MSH' or any(n in BADSEG for n,_ in segs): res['skip']+=1; continue
        if not eligible(t,places): res['not-eligible']+=1; continue
        try:
            lines=[build_msh(rnd,lib,v,mname,segs[0][1],0.0)]+[build_segment(rnd,lib,n,r,0.3) for n,r in segs[1:]]
        except Exception as e:
            res['buildexc']+=1; ex.setdefault('buildexc',(v,mname,repr(e)[:80])); continue
        txt='\r'.join(lines)
        try:
            m=parse_message(txt); r=m.validate(return_errors=True)
        except Exception as e:
            res[('exc',type(e).__name__)]+=1; ex.setdefault(('exc',type(e).__name__),(v,mname,str(e)[:80])); continue
        res['eligible']+=1
        if any(k=='G' for (_,_,k,_) in t): res['with-groups']+=1
        if lshape(m)!=shape(t): res['SHAPE-DIFF']+=1; ex.setdefault('SHAPE-DIFF',(v,mname,shape(t),lshape(m)))
        if m.to_er7()!=txt: res['rt-diff']+=1; ex.setdefault('rt-diff',(v,mname))
        if r.is_valid: res['valid']+=1
        else:
            res['INVALID']+=1
            for e in r.errors:
                k=' '.join(str(e).split(' ')[0:3]); kinds[(v,k)]+=1; ex.setdefault((v,k),(mname,str(e)[:150]))
print(time.time()-t0)
for k in sorted(res,key=str): print(k,res[k],repr(ex.get(k,''))[:600])
for k,c in kinds.most_common(40): print(k,c,repr(ex[k])[:300])
