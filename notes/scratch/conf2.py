import hl7apy, collections, random
from hl7apy import load_library
LEAF={'ST':'A','ID':'A','IS':'A','NM':'1','SI':'1','DT':'20200101','TM':'1200','DTM':'20200101','FT':'A','TX':'A','TN':'555-1234','GTS':'A','SNM':'1','CM':'A','WD':'A','varies':'A'}
def build_dt(rnd, lib, ref, lvl, p_opt):
    seps=['^','&']; dt=ref[2]
    if ref[0]=='leaf' or lib.is_base_datatype(dt) or dt=='varies':
        return LEAF.get(dt,'A')
    kids = ref[1] if ref[1] else lib.DATATYPES_STRUCTS.get(dt)
    if kids is None or lvl>=2: return 'A'
    out=[]
    for c in kids:
        mn,mx=c[2]
        if mn>=1 or rnd.random()<p_opt: out.append(build_dt(rnd,lib,c[1],lvl+1,p_opt))
        else: out.append('')
    while out and out[-1]=='': out.pop()
    if not out: out=[build_dt(rnd,lib,kids[0][1],lvl+1,p_opt)]
    return seps[lvl].join(out)
def build_segment(rnd, lib, name, ref, p_opt):
    byidx={int(c[0].split('_')[1]):c for c in ref[1]}
    out=[]
    for i in range(1,max(byidx)+1):
        c=byidx.get(i)
        if c is None: out.append(''); continue
        mn,mx=c[2]
        if mn>=1 or rnd.random()<p_opt:
            n=max(mn,1)
            if mx==-1 or mx>n:
                if rnd.random()<0.3: n+=1
            out.append('~'.join(build_dt(rnd,lib,c[1],0,p_opt) for _ in range(n)))
        else: out.append('')
    while out and out[-1]=='': out.pop()
    return name+'|'+'|'.join(out) if out else name
def build_msh(rnd, lib, v, mname, ref, p_opt):
    byidx={int(c[0].split('_')[1]):c for c in ref[1]}
    parts=mname.split('_')
    c9=byidx[9]; ncomp=len(c9[1][1]) if c9[1][0]=='sequence' and c9[1][1] else 1
    t9='^'.join((parts[:2]+[mname])[:max(ncomp,1)]) if len(parts)>=2 else '^'.join([mname,'',mname][:max(ncomp,1)])
    out=[]
    for i in range(3,max(byidx)+1):
        c=byidx.get(i)
        if c is None: out.append(''); continue
        if i==9: out.append(t9); continue
        if i==12: out.append(v); continue
        mn,mx=c[2]
        out.append(build_dt(rnd,lib,c[1],0,0.0) if mn>=1 else '')
    while out and out[-1]=='': out.pop()
    return 'MSH|^~\\&|'+'|'.join(out)
def tree(rnd, struct, p_opt, depth=0):
    """returns nested list: [(name, ref, kind, [children] or None)]"""
    out=[]
    for (name,ref,(mn,mx),cls) in struct[1]:
        n=mn
        if rnd.random()<p_opt:
            hi = 2 if mx==-1 else min(mx,2)
            n=max(mn, rnd.randint(1,max(1,hi)))
            if mx!=-1: n=min(n,mx)
        for _ in range(n):
            if cls=='SEG': out.append((name,ref,'S',None))
            else: out.append((name,ref,'G',tree(rnd,ref,p_opt*0.6,depth+1)))
    return out
def flat(t):
    r=[]
    for (n,ref,k,ch) in t:
        if k=='S': r.append((n,ref))
        else: r.extend(flat(ch))
    return r
def shape(t): return [n if k=='S' else (n,shape(ch)) for (n,ref,k,ch) in t]
def dupsib(struct):
    cnt=collections.Counter(c[0] for c in struct[1])
    if any(v>1 for v in cnt.values()): return True
    return any(dupsib(c[1]) for c in struct[1] if c[3]=='GRP')
