import sys, random, time
from sched import run
from hl7apy.parser import parse_message, parse_segment
from hl7apy.factories import datatype_factory
import hl7apy
print(hl7apy.__file__)
tasks=[lambda: parse_segment('PID|1||X||N^M|||F|||||||||||||||||||||20xx', version='2.5', validation_level=2).to_er7(),
       lambda: parse_segment('PID|abc||X||N^M', version='2.4', validation_level=1).to_er7(),
       lambda: datatype_factory('DT','20xx','2.5',2).to_er7(),
       lambda: datatype_factory('NM','1x','2.3',1).to_er7()]
def solo(t):
    try: return ('ok',t())
    except Exception as e: return ('exc',type(e).__name__,str(e)[:80])
base=[solo(t) for t in tasks]
print(base)
rnd=random.Random(int(sys.argv[1]) if len(sys.argv)>1 else 1)
t0=time.time(); bad=0
for k in range(30):
    sch=[(rnd.randrange(4), rnd.randint(1,12)) for _ in range(2000)]
    out,sw=run(tasks,sch)
    if out!=base: bad+=1; print('DIFF at run',k, [ (a,b) for a,b in zip(out,base) if a!=b][:2]); break
print('runs',k+1,'bad',bad, round(time.time()-t0,1),'s')
