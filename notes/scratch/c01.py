import random, collections, sys
from gen import *
from hl7apy.parser import parse_segment
rnd = random.Random(int(sys.argv[1]) if len(sys.argv)>1 else 1)
fails=collections.Counter(); ex={}
N=6000
for n in range(N):
    v = rnd.choice(VERSIONS)
    t = gen_segment(rnd, v)
    try:
        o = parse_segment(t, version=v).to_er7()
    except Exception as e:
        k=('exc',type(e).__name__, v, t[:3]); fails[k]+=1; ex.setdefault(k,(t,str(e)[:100])); continue
    if o!=t:
        k=('diff',v,t[:3]); fails[k]+=1; ex.setdefault(k,(t,o))
print(sum(fails.values()),'/',N)
for k,c in sorted(fails.items(), key=str): print(k,c,ex[k])
