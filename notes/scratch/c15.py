import random, collections, traceback
from hl7apy.parser import parse_message, get_message_type
from hl7apy.exceptions import HL7apyException
from hl7apy.consts import VALIDATION_LEVEL as VL
seeds = [
 'MSH|^~\\&|GHH_ADT||||20080115153000||ADT^A01^ADT_A01|0123456789|P|2.5||||AL\rEVN||20080115153000||AAA|AAA|20080114003000\rPID|1||566-554-3423^^^GHH^MR||EVERYMAN^ADAM^A|||M|||2222 HOME STREET^^ANN ARBOR^MI^^USA||555-555-2004~444-333-222|||M\rNK1|1|NUCLEAR^NELDA^W|SPO|2222 HOME STREET^^ANN ARBOR^MI^^USA\rPV1|1|I|GHH PATIENT WARD|U||||^SENDER^SAM^^MD|^PUMP^PATRICK^P|CAR||||2|A0|||||||||||||||||||||||||||||2008\r',
 'MSH|^~\\&#|A|B|C|D|20200101||OML^O33^OML_O33|1|P|2.7\rPID|1||1^^^X\rSPM|1|100187400201^||SPECIMEN^Blood|||||||PSN^Human Patient||||||20110708162817||20110708162817|||||||1|CONTAINER^CONTAINER DESC\rORC|NW|83428|83428|18740|SC||||20110708162817\rOBR||83428|83428|TPO^ANTI THYROPEROXIDASE ANTIBODIES(TPO)^^TPO||||||||||||ND^UNKNOWN^UNKNOWN\r',
 'MSH|^~\\&|A|B|C|D|20200101||ZAA^ZBB^ZAA_ZBB|1|P|2.4\rZIN|1|2\rPID|1\r',
]
rnd=random.Random(3)
def mutate(s):
    s=list(s)
    for _ in range(rnd.randint(1,4)):
        op=rnd.random(); 
        if not s: break
        i=rnd.randrange(len(s))
        if op<0.25: del s[i:i+rnd.randint(1,5)]
        elif op<0.5: s.insert(i, rnd.choice('|^~\\&\r#MSH2.5 1A_'))
        elif op<0.7: s[i]=rnd.choice('|^~\\&\r#MSHZ279. ')
        elif op<0.8: s=s[:i]
        elif op<0.9: s[i:i]=s[i:i+rnd.randint(1,20)]
        else: s.insert(i,'\r'+rnd.choice(['ZZZ','PID','XXX','','EVN','OBX','A']) + '|')
    return ''.join(s)
res=collections.Counter(); ex={}
for n in range(30000):
    t=mutate(rnd.choice(seeds))
    for lvl in (VL.TOLERANT, VL.STRICT):
      for fg in (True,False):
        try:
            m=parse_message(t, validation_level=lvl, find_groups=fg)
        except HL7apyException: res['hl7exc']+=1; continue
        except ValueError as e:
            if lvl==VL.STRICT: res['valueerr-strict']+=1; continue
            tb=traceback.extract_tb(e.__traceback__)[-1]; k=('parse',lvl,type(e).__name__,tb.filename.split('/')[-1],tb.lineno); res[k]+=1; ex.setdefault(k,(t,fg,str(e)[:60])); continue
        except Exception as e:
            tb=traceback.extract_tb(e.__traceback__)[-1]; k=('parse',type(e).__name__,tb.filename.split('/')[-1],tb.lineno); res[k]+=1; ex.setdefault(k,(t,fg,str(e)[:60])); continue
        res['parsed']+=1
        try: m.to_er7()
        except Exception as e:
            tb=traceback.extract_tb(e.__traceback__)[-1]; k=('er7',type(e).__name__,tb.filename.split('/')[-1],tb.lineno); res[k]+=1; ex.setdefault(k,(t,fg,str(e)[:60]))
        try: m.validate(return_errors=True)
        except Exception as e:
            tb=traceback.extract_tb(e.__traceback__)[-1]; k=('val',type(e).__name__,tb.filename.split('/')[-1],tb.lineno); res[k]+=1; ex.setdefault(k,(t,fg,str(e)[:60]))
    try: get_message_type(t)
    except HL7apyException: pass
    except Exception as e:
        tb=traceback.extract_tb(e.__traceback__)[-1]; k=('gmt',type(e).__name__,tb.filename.split('/')[-1],tb.lineno); res[k]+=1; ex.setdefault(k,(t,str(e)[:60]))
for k in sorted(res,key=str): print(k,res[k], repr(ex.get(k,''))[:300])
