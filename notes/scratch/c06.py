import itertools, re, collections
from hl7apy.v2_5 import ST
from hl7apy.v2_7 import ST as ST27
ec = {'FIELD':'|','COMPONENT':'^','SUBCOMPONENT':'&','REPETITION':'~','ESCAPE':'\\','SEGMENT':'\r','GROUP':'\r'}
ec27 = dict(ec, TRUNCATION='#')
def wellformed(s, esc, letters, delims):
    # every esc belongs to esc-letter-esc; no raw delims
    i=0; 
    while i<len(s):
        c=s[i]
        if c in delims: return 'rawdelim'
        if c==esc:
            if i+2<len(s) and s[i+1] in letters and s[i+2]==esc: i+=3; continue
            return 'loneesc'
        i+=1
    return None
alpha = ['|','^','&','~','\\','E','F','H','a','#']
cnt=collections.Counter(); ex={}
for cls,e,letters,delims,tag in ((ST,ec,'HNFSTRE','|^&~','25'),(ST27,ec27,'HNFSTREL','|^&~#','27')):
  for L in range(0,7):
    for t in itertools.product(alpha, repeat=L):
        s=''.join(t)
        o = cls(s).to_er7(e)
        w = wellformed(o,'\\',letters,delims)
        if w: cnt[(tag,w)]+=1; ex.setdefault((tag,w),(s,o))
        o2 = cls(o).to_er7(e)
        if o2!=o: cnt[(tag,'idem')]+=1; ex.setdefault((tag,'idem'),(s,o,o2))
print(cnt); print(ex)
