import random, collections, sys
from gen import *
from hl7apy.parser import parse_segment
from hl7apy.consts import VALIDATION_LEVEL as VL
from hl7apy.exceptions import HL7apyException
rnd = random.Random(int(sys.argv[1]) if len(sys.argv)>1 else 1)
res=collections.Counter(); ex={}
N=4000
for n in range(N):
    v = rnd.choice(VERSIONS)
    t = gen_segment(rnd, v)
    if rnd.random()<0.3:
        # mutate: add extra field / extra component / bad value
        t += rnd.choice(['|X','^X','~Y','&Z'])
    try:
        s = parse_segment(t, version=v, validation_level=VL.STRICT)
    except (HL7apyException, ValueError) as e:
        res[('strict-reject',type(e).__name__)]+=1; continue
    except Exception as e:
        k=('strict-crash',type(e).__name__); res[k]+=1; ex.setdefault(k,(v,t,str(e)[:80])); continue
    res['strict-accept']+=1
    try:
        s2 = parse_segment(t, version=v, validation_level=VL.TOLERANT)
    except Exception as e:
        k=('tolerant-reject',type(e).__name__); res[k]+=1; ex.setdefault(k,(v,t,str(e)[:80])); continue
    if s.to_er7()!=s2.to_er7(): k='er7-diff'; res[k]+=1; ex.setdefault(k,(v,t,s.to_er7(),s2.to_er7()))
    r1=s.validate(return_errors=True); r2=s2.validate(return_errors=True)
    a=[str(e) for e in r1.errors]; b=[str(e) for e in r2.errors]
    if a!=b or [str(w) for w in r1.warnings]!=[str(w) for w in r2.warnings]: k='report-diff'; res[k]+=1; ex.setdefault(k,(v,t,a[:3],b[:3]))
    other=[x for x in a if not x.startswith('Missing required child')]
    if other: k=('strict-other-error',other[0][:30]); res[k]+=1; ex.setdefault(k,(v,t,other[:3]))
for k in sorted(res,key=str): print(k,res[k],repr(ex.get(k,''))[:500])
