import random, hl7apy
from hl7apy import load_library
VERSIONS = sorted(hl7apy.SUPPORTED_LIBRARIES)
BAD = {'ANYHL7SEGMENT','ANYZSEGMENT','ORO','QRD','QRF','URD','URS'}
def leaf_text(rnd, dt):
    r = rnd.random()
    if dt in ('NM',) and r<0.5: return rnd.choice(['1','0','-3','12.50','100','0.5','-0.25'])
    if dt in ('SI',) and r<0.5: return rnd.choice(['1','2','10','999'])
    if dt=='DT' and r<0.5: return rnd.choice(['2020','202001','20200131','19991231'])
    if dt=='DTM' and r<0.5: return rnd.choice(['2020','202001','20200131','2020013112','202001311259','20200131125959','20200131125959.1234','20200131125959+0100','2020013112-0500'])
    if dt=='TM' and r<0.5: return rnd.choice(['12','1259','125959','125959.12','1259+0100'])
    alphabet = 'AbC xyz09.-_FSTRE/:;'
    n = rnd.randint(1,6)
    s = ''.join(rnd.choice(alphabet) for _ in range(n)).strip()
    if rnd.random()<0.2: s += rnd.choice(['\\F\\','\\S\\','\\T\\','\\R\\','\\E\\','\\H\\x\\N\\','\\N\\'])
    return s or 'A'
def dt_struct(lib, dt):
    return lib.DATATYPES_STRUCTS.get(dt)
def gen_sub(rnd, lib, dt):
    # dt: datatype of component ; returns text of component
    if lib.is_base_datatype(dt) or dt in ('varies',None):
        return leaf_text(rnd, dt)
    st = dt_struct(lib, dt)
    if st is None: return leaf_text(rnd, 'ST')
    n = len(st)
    k = rnd.randint(1,n)
    out=[]
    for i in range(k):
        cname, cref = st[i][0], st[i][1]
        if rnd.random()<0.5 or i==k-1:
            cdt = cref[2]
            if lib.is_base_datatype(cdt): out.append(leaf_text(rnd,cdt))
            else: out.append(leaf_text(rnd,'ST'))  # depth 3: not supported by ER7
        else: out.append('')
    return '&'.join(out)
def gen_field(rnd, lib, fref):
    dt = fref[2]
    if lib.is_base_datatype(dt) or dt=='varies':
        return leaf_text(rnd, dt)
    st = dt_struct(lib, dt)
    if st is None: return leaf_text(rnd,'ST')
    n=len(st); k=rnd.randint(1,n); out=[]
    for i in range(k):
        if rnd.random()<0.5 or i==k-1:
            out.append(gen_sub(rnd, lib, st[i][1][2]))
        else: out.append('')
    return '^'.join(out)
def gen_segment(rnd, v, sname=None):
    lib = load_library(v)
    if sname is None:
        sname = rnd.choice([s for s in sorted(lib.SEGMENTS) if s not in BAD and s!='MSH'])
    ch = lib.SEGMENTS[sname][1]
    last = int(ch[-1][0].split('_')[1])
    byidx = {int(c[0].split('_')[1]):c for c in ch}
    k = rnd.randint(1,last)
    out=[]
    for i in range(1,k+1):
        c = byidx.get(i)
        if c is None: out.append(''); continue
        if rnd.random()<0.4 or i==k:
            nrep = 1 if rnd.random()<0.8 else rnd.randint(2,3)
            out.append('~'.join(gen_field(rnd, lib, c[1]) for _ in range(nrep)))
        else: out.append('')
    while out and out[-1]=='': out.pop()
    return sname+'|'+'|'.join(out) if out else sname
