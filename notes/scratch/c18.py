import sys, collections, random, time
from conf2 import build_msh, flat, shape, dupsib
from conf3 import *
from hl7apy.core import Message, Segment
rnd=random.Random(int(sys.argv[1]) if len(sys.argv)>1 else 1)
res=collections.Counter(); ex={}
def note(k,v): res[k]+=1; ex.setdefault(k,v)
def edit(ref, path, fn):
    kids=[]
    for c in ref[1]:
        if c[0]==path[0]:
            if len(path)==1:
                r=fn(c)
                if r is not None: kids.append(r)
            else: kids.append((c[0], edit(c[1], path[1:], fn), c[2], c[3]))
        else: kids.append(c)
    return (ref[0], tuple(kids)) + tuple(ref[2:])
def build(parent, t, lib, rnd, p_opt=0.3):
    for (n,ref,k,ch) in t:
        if k=='S':
            if n=='MSH': continue
            s=parent.add_segment(n); s.value=build_segment(rnd,lib,n,ref,p_opt)
        else:
            g=parent.add_group(n); build(g,ch,lib,rnd,p_opt)
def paths(struct, prefix=()):
    """all (path, child) for SEG/GRP children and fields of segments"""
    out=[]
    for c in struct[1]:
        out.append((prefix+(c[0],), c))
        if c[3]=='GRP': out.extend(paths(c[1], prefix+(c[0],)))
        elif c[3]=='SEG' and c[1][0]=='sequence' and len(c[1])>1 and c[1][1]:
            for f in c[1][1]: out.append((prefix+(c[0],f[0]), f))
    return out
def present(t, path):
    """is element at path present in generated tree t (first occurrence chain)? only for SEG/GRP levels"""
    for (n,ref,k,ch) in t:
        if n==path[0]:
            if len(path)==1: return True
            if k=='G' and present(ch, path[1:]): return True
    return False
def errs(m): return [str(e) for e in m.validate(return_errors=True).errors]
t0=time.time()
for v in ('2.3','2.5','2.6','2.8.2'):
    lib=load_library(v)
    names=[m for m,r in sorted(lib.MESSAGES.items()) if r[0]=='sequence' and r[1] and m.upper()==m and not dupsib(r)]
    for mname in rnd.sample(names, 30):
        std=lib.MESSAGES[mname]
        t=tree(rnd,std,collections.Counter(),0.5)
        segs=flat(t)
        if not segs or segs[0][0]!='MSH' or any(n in BADSEG for n,_ in segs): note('skip',None); continue
        ps=[(p,c) for p,c in paths(std) if p[0]!='MSH' and c[3] in ('SEG','GRP')]
        if not ps: continue
        # restating profile
        try:
            mshtxt=build_msh(rnd,lib,v,mname,segs[0][1],0.0)
            seed=rnd.random()
            def mk(profile):
                r2=random.Random(seed)
                m=Message(mname, version=v, reference=profile) if profile else Message(mname, version=v)
                m.msh=mshtxt; build(m,t,lib,r2); return m
            m0=mk(None); m1=mk({mname:std})
            if m0.to_er7()!=m1.to_er7() or errs(m0)!=errs(m1): note('RESTATE-DIFF',(v,mname))
            else: note('restate-ok',None)
            if errs(m0): note('base-invalid',(v,mname,errs(m0)[:2])); continue
            # edit: optional -> required for an absent optional seg/group whose parent is present (or top-level)
            cand=[(p,c) for p,c in ps if c[2][0]==0 and c[2][1]!=0 and not present(t,p) and (len(p)==1 or present(t,p[:-1]))]
            if cand:
                p,c=rnd.choice(cand)
                prof={mname: edit(std, list(p), lambda c:(c[0],c[1],(1,c[2][1]),c[3]))}
                m=mk(prof); e=errs(m)
                if not any(p[-1] in x and 'Missing required' in x for x in e): note('REQ-NOT-REPORTED',(v,mname,p,e[:3]))
                else: note('req-ok',None)
            # edit: forbid a present seg/group
            cand=[(p,c) for p,c in ps if present(t,p)]
            if cand:
                p,c=rnd.choice(cand)
                prof={mname: edit(std, list(p), lambda c:None)}
                try:
                    m=mk(prof); e=errs(m)
                    if not any(p[-1] in x for x in e): note('FORBID-NOT-REPORTED',(v,mname,p,e[:3]))
                    else: note('forbid-ok',None)
                except Exception as ex_:
                    note(('forbid-exc',type(ex_).__name__),(v,mname,p,str(ex_)[:80]))
        except Exception as ex_:
            note(('exc',type(ex_).__name__),(v,mname,str(ex_)[:100]))
print(round(time.time()-t0,1))
for k in sorted(res,key=str): print(k,res[k],repr(ex[k])[:400])
