import time, collections, os
import hypothesis
from hypothesis import given, settings, strategies as st, HealthCheck, seed
import hl7apy
from hl7apy import load_library
from hl7apy.parser import parse_segment
V='2.5'; lib=load_library(V)
SEGS=[s for s,r in sorted(lib.SEGMENTS.items()) if r[0]=='sequence' and len(r)>1 and r[1] and s!='MSH']
TEXT=st.text(alphabet='ABCabc019 .-_/:;', min_size=1, max_size=8).map(str.strip).filter(bool)
ESC=st.sampled_from(['\\F\\','\\S\\','\\T\\','\\R\\','\\E\\','\\H\\','\\N\\'])
def leaf(dt):
    if dt in ('NM',): return st.one_of(st.from_regex(r'-?(0|[1-9][0-9]{0,6})(\.[0-9]{1,4})?', fullmatch=True), TEXT.map(lambda s:'x'+s))
    if dt=='SI': return st.integers(0,9999).map(str)
    if dt=='DT': return st.dates(min_value=__import__('datetime').date(1000,1,1)).map(lambda d:d.strftime('%Y%m%d'))
    if dt in ('DTM','TM'): return TEXT.map(lambda s:'x'+s)
    return st.builds(lambda a,b,c: (a+b+c).strip() or 'A', TEXT, st.one_of(st.just(''),ESC), st.one_of(st.just(''),TEXT))
@st.composite
def comp(draw, cref):
    dt=cref[2]
    if lib.is_base_datatype(dt) or dt=='varies' or cref[0]=='leaf': return draw(leaf(dt))
    kids=cref[1] or lib.DATATYPES_STRUCTS.get(dt)
    if not kids: return draw(leaf('ST'))
    n=draw(st.integers(1,len(kids)))
    mask=draw(st.lists(st.booleans(),min_size=n,max_size=n)); mask[-1]=True
    return '&'.join(draw(leaf(kids[i][1][2] if lib.is_base_datatype(kids[i][1][2]) else 'ST')) if mask[i] else '' for i in range(n))
@st.composite
def field(draw, fref):
    dt=fref[2]
    if lib.is_base_datatype(dt) or dt=='varies' or fref[0]=='leaf': return draw(leaf(dt))
    kids=fref[1]
    n=draw(st.integers(1,len(kids)))
    mask=draw(st.lists(st.booleans(),min_size=n,max_size=n)); mask[-1]=True
    return '^'.join(draw(comp(kids[i][1])) if mask[i] else '' for i in range(n))
@st.composite
def segline(draw):
    s=draw(st.sampled_from(SEGS)); ch=lib.SEGMENTS[s][1]
    byidx={int(c[0].split('_')[1]):c for c in ch}
    last=max(byidx); k=draw(st.integers(1,last))
    idxs=draw(st.sets(st.sampled_from(sorted(i for i in byidx if i<=k)), max_size=6)) if any(i<=k for i in byidx) else set()
    if k in byidx: idxs=set(idxs)|{k}
    if not idxs: idxs={min(byidx)}
    out=[]
    for i in range(1,max(idxs)+1):
        if i in idxs:
            nrep=draw(st.sampled_from([1,1,1,2,3]))
            out.append('~'.join(draw(field(byidx[i][1])) for _ in range(nrep)))
        else: out.append('')
    return s+'|'+'|'.join(out)
cnt=collections.Counter(); seen=set()
@seed(int(os.environ.get('VERIF_SEED','1')))
@settings(max_examples=2000, deadline=None, database=None, suppress_health_check=list(HealthCheck))
@given(segline())
def test(t):
    cnt['n']+=1; seen.add(t)
    if any(c in t for c in '~^&\\'): cnt['nontrivial']+=1
    o=parse_segment(t, version=V).to_er7()
    assert o==t, (t,o)
t0=time.time()
try: test(); print('PASS')
except Exception as e: print('FAIL', str(e)[:300])
print(cnt, len(seen), round(time.time()-t0,1),'s')
print(list(seen)[:3])
