import itertools, re, collections, calendar
from hl7apy.factories import datatype_factory
from hl7apy.consts import VALIDATION_LEVEL as VL
def ref_date(s):
    if not re.fullmatch(r'\d{4}(\d{2}(\d{2})?)?', s): return False
    y=int(s[:4]); 
    if y<1: return False
    if len(s)>=6:
        mo=int(s[4:6]); 
        if not 1<=mo<=12: return False
        if len(s)==8:
            d=int(s[6:8]); 
            if not 1<=d<=calendar.monthrange(y,mo)[1]: return False
    return True
def ref_time(s):
    m=re.fullmatch(r'(\d{2})((\d{2})((\d{2})(\.\d{1,4})?)?)?', s)
    if not m: return False
    if int(m.group(1))>23: return False
    if m.group(3) and int(m.group(3))>59: return False
    if m.group(5) and int(m.group(5))>59: return False
    return True
def ref_off(o):
    if o=='': return True
    m=re.fullmatch(r'([+-])(\d{2})(\d{2})', o)
    if not m: return False
    h=int(m.group(2)); mi=int(m.group(3))
    if mi>59: return False
    return h<= (14 if m.group(1)=='+' else 12)
def split(s):
    m=re.search(r'[+-]', s)
    return (s[:m.start()], s[m.start():]) if m else (s,'')
def ref(dt,s):
    if dt=='DT': return ref_date(s)
    b,o=split(s)
    if not ref_off(o): return False
    if dt=='TM': return ref_time(b)
    if dt=='DTM':
        if len(b)<=8: return ref_date(b)
        return ref_date(b[:8]) and ref_time(b[8:])
def acc(dt,s,v='2.5'):
    try:
        o=datatype_factory(dt,s,v,VL.STRICT); return True,o.to_er7()
    except ValueError: return False,None
    except Exception as e: return 'EXC:'+type(e).__name__,None
alpha='0123569.+- A'
cnt=collections.Counter(); ex=collections.defaultdict(list)
for dt in ('DT','TM','DTM'):
    for L in range(1,6):
        for t in itertools.product(alpha,repeat=L):
            s=''.join(t)
            a,o=acc(dt,s); r=ref(dt,s)
            if a!=r: k=(dt,'acc' if a is True else a,'ref',r); cnt[k]+=1; ex[k].append(s)
            elif a and o!=s: k=(dt,'text'); cnt[k]+=1; ex[k].append((s,o))
print(cnt)
for k,v in ex.items(): print(k, v[:12])
# targeted
for dt,s in [('DT','202012 1'),('DT','0999'),('DT','00010101'),('DTM','2020+0100+0100'),('DTM','20200101+1401'),('DTM','20200101-1201'),('DTM','20200101+1459'),('DTM','20200101+1500'),('TM','2400'),('TM','2360'),('TM','235960'),('TM','120000.12345'),('TM','120000.'),('DTM','20200229'),('DTM','20210229'),('DTM','2020010112.5'),('TM','12+01000'),('TM','1+0100'),('DTM','202001011230+0100'),('TM','0100+0100'),('DTM','01000100+0100'),('DTM','19000100+0100'),('TM','010000.0100+0100'),('TM','1200-0000')]:
    print(dt,repr(s),acc(dt,s),ref(dt,s))
for dt,s in [('NM','1'),('NM','0.0000001'),('NM','1E5'),('NM','_9_'),('NM','+5'),('NM',' 5'),('NM','٣'),('NM','NaN'),('NM','Infinity'),('NM','-'),('NM','1.'),('NM','.5'),('NM','12345678901234567'),('NM','1234567890123456'),('SI','12345'),('SI','1234'),('SI','-1'),('SI','1_0'),('SI',' 7 '),('SI','+7'),('SI','1.0'),('SI','٣')]:
    print(dt,repr(s),acc(dt,s))
