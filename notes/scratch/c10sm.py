import os, collections
exec(open('c09sm.py').read().split("T=hypothesis.seed")[0])
def check_tree(e, seen):
    ch=e.children
    L=list(ch.list)
    assert len(ch)==len(L)==len(list(iter(ch)))
    ids=[id(c) for c in L]
    assert len(set(ids))==len(ids), 'listed twice'
    for c in L:
        assert c.parent is e, ('parent', c, c.parent, e)
        assert id(c) not in seen, 'listed by two parents'; seen.add(id(c))
        assert c in ch
        assert c.version==e.version and c.validation_level==e.validation_level
    # indexes agree with list
    by=collections.defaultdict(list)
    for c in L: by[c.name].append(c)
    idx={k:v for k,v in ch.indexes.items() if v}
    assert set(idx)==set(by), (set(idx), set(by))
    for k in by:
        assert [id(x) for x in idx[k]]==[id(x) for x in by[k]], ('order',k)
        if k is not None:
            p=ch.get(k)
            assert p is not None and len(p)==len(by[k]) and [id(x) for x in p]==[id(x) for x in by[k]]
            for i,x in enumerate(by[k]): assert p[i] is x
    for k,v in ch.traversal_indexes.items():
        for t in v:
            assert t.traversal_parent is e and all(t is not c for c in L)
    for c in L:
        if hasattr(c,'children') and not isinstance(c, SubComponent): check_tree(c, seen)
class M2(M):
    @rule(f=st.sampled_from(FIELDS))
    def read_chain(self,f):
        p=getattr(self.s,f); len(p); list(p)
        if f in ('PID_3','PID_5','PID_13'):
            dt={'PID_3':'CX','PID_5':'XPN','PID_13':'XTN'}[f]
            q=getattr(p,dt+'_2'); len(q); repr(q)
    @rule(i=st.integers(0,6))
    def pop(self,i):
        try: c=self.s.children.pop(i); ok=True
        except IndexError: ok=False
        if ok:
            # model: remove that object: find its name & rank
            n=c.name; reps=self.m[n]
            # rank among same-name in list order before removal: recompute from text
            txt=c.to_er7(); 
            # remove first occurrence equal (values may be duplicated; rank unknown) -> rebuild model from impl for this name
            self.m[n]=[x.to_er7() for x in getattr(self.s,n)]
    @invariant()
    def tree_ok(self):
        check_tree(self.s,set())
T=hypothesis.seed(int(os.environ.get('VERIF_SEED','1')))(M2)
try:
    run_state_machine_as_test(T, settings=settings(max_examples=200, stateful_step_count=30, deadline=None, database=None, report_multiple_bugs=False, suppress_health_check=list(HealthCheck)))
    print('PASS')
except Exception as e:
    import traceback; traceback.print_exc()
print(stats)
