import random, hl7apy, collections
from hl7apy import load_library
from gen import gen_segment, VERSIONS, BAD
def msh(v, name, ec='^~\\&'):
    parts = name.split('_')
    t = '^'.join(parts[:2]+[name]) if len(parts)>=2 else name
    return 'MSH|%s|APP|FAC|RAPP|RFAC|20200101120000||%s|ID1|P|%s' % (ec, t, v)
def instance(rnd, struct, mode, depth=0):
    """returns list of (segname, path) ; path = tuple of group names"""
    out=[]
    for (name, ref, (mn,mx), cls) in struct[1]:
        if mode=='required': n = mn
        elif mode=='all': n = max(mn,1)
        else:
            hi = 3 if mx==-1 else min(mx,3)
            n = rnd.randint(mn, max(mn,hi)) if rnd.random()<0.6 else mn
        for _ in range(n):
            if cls=='SEG': out.append(name)
            else: out.extend(instance(rnd, ref, mode, depth+1))
    return out
def flatten(el):
    from hl7apy.core import Segment
    r=[]
    for c in el.children:
        if isinstance(c, Segment): r.append(c)
        else: r.extend(flatten(c))
    return r
