import os, collections
import hypothesis
from hypothesis import settings, strategies as st, HealthCheck
from hypothesis.stateful import RuleBasedStateMachine, rule, invariant, precondition, run_state_machine_as_test
from hl7apy.core import *
from hl7apy.parser import parse_segment, parse_field
V='2.5'
FIELDS=['PID_1','PID_3','PID_5','PID_8','PID_13']
LONG={'PID_1':'set_id_pid','PID_3':'patient_identifier_list','PID_5':'patient_name','PID_8':'administrative_sex','PID_13':'phone_number_home'}
VAL={'PID_1':['1','2','3'],'PID_3':['A','B^^^C','D^^^E&F'],'PID_5':['X^Y','Z'],'PID_8':['F','M'],'PID_13':['1','2^3']}
IDX={'PID_1':1,'PID_3':3,'PID_5':5,'PID_8':8,'PID_13':13}
MODE=os.environ.get('SETMODE','spec')   # spec: replace in place ; observed: remove+append
stats=collections.Counter()
def enc(model):
    out=[]
    for i in range(1,14):
        n='PID_%d'%i
        out.append('~'.join(model.get(n,[])))
    while out and out[-1]=='': out.pop()
    return 'PID|'+'|'.join(out) if out else 'PID'
class M(RuleBasedStateMachine):
    def __init__(self):
        super().__init__(); self.s=Segment('PID',version=V); self.m={}
        self.other=parse_segment('PID|9||O1~O2||P^Q|||G|||||7~8',version=V)
    def _set(self,name,v,i):
        reps=self.m.setdefault(name,[])
        if i<len(reps):
            if MODE=='spec': reps[i]=v
            else: del reps[i]; reps.append(v)
        else: reps.append(v)
    @rule(f=st.sampled_from(FIELDS), k=st.integers(0,2), how=st.sampled_from(['name','lower','long']))
    def set_name(self,f,k,how):
        v=VAL[f][k%len(VAL[f])]; n={'name':f,'lower':f.lower(),'long':LONG[f]}[how]
        setattr(self.s,n,v); self._set(f,v,0); stats['set']+=1
    @rule(f=st.sampled_from(FIELDS), k=st.integers(0,2), i=st.integers(0,4))
    def set_index(self,f,k,i):
        v=VAL[f][k%len(VAL[f])]
        getattr(self.s,f)[i]=v; self._set(f,v,i); stats['setidx']+=1
    @rule(f=st.sampled_from(FIELDS), k=st.integers(0,2))
    def add(self,f,k):
        v=VAL[f][k%len(VAL[f])]; fl=Field(f,version=V); fl.value=v; self.s.add(fl); self.m.setdefault(f,[]).append(v); stats['add']+=1
    @rule(f=st.sampled_from(FIELDS), k=st.integers(0,2))
    def add_field(self,f,k):
        v=VAL[f][k%len(VAL[f])]; fl=self.s.add_field(f); fl.value=v; self.m.setdefault(f,[]).append(v); stats['add_field']+=1
    @rule(f=st.sampled_from(FIELDS))
    def del_name(self,f):
        try: delattr(self.s,f); ok=True
        except Exception as e: ok=False; stats['del-rej:'+type(e).__name__]+=1
        if ok:
            if self.m.get(f): del self.m[f][0]; stats['del']+=1
            else: stats['del-noop']+=1
        else: assert not self.m.get(f), 'delete of present rejected'
    @rule(f=st.sampled_from(FIELDS), i=st.integers(0,3))
    def del_index(self,f,i):
        try: del getattr(self.s,f)[i]; ok=True
        except Exception as e: ok=False; stats['delidx-rej:'+type(e).__name__]+=1
        if ok:
            assert i<len(self.m.get(f,[])); del self.m[f][i]; stats['delidx']+=1
        else: assert i>=len(self.m.get(f,[]))
    @rule(f=st.sampled_from(FIELDS))
    def copy_proxy(self,f):
        src=getattr(self.other,f)
        try: setattr(self.s,f,src); ok=True
        except Exception as e: ok=False; stats['copy-rej:'+type(e).__name__]+=1
        if ok:
            self._set(f, src[0].to_er7(), 0); stats['copy']+=1
    @invariant()
    def agrees(self):
        assert self.s.to_er7()==enc(self.m), (self.s.to_er7(), enc(self.m))
        for f in FIELDS:
            assert [c.to_er7() for c in getattr(self.s,f)]==self.m.get(f,[]), f
T=hypothesis.seed(int(os.environ.get('VERIF_SEED','1')))(M)
try:
    run_state_machine_as_test(T, settings=settings(max_examples=300, stateful_step_count=30, deadline=None, database=None, report_multiple_bugs=False, suppress_health_check=list(HealthCheck)))
    print('PASS')
except Exception as e:
    import traceback; traceback.print_exc()
print(stats)
