import hl7apy, collections, random
from hl7apy import load_library
from conf2 import LEAF, build_msh, flat, shape, dupsib
BADSEG={'ANYHL7SEGMENT','ANYZSEGMENT','ORO','QRD','QRF','URD','URS'}
def build_dt(rnd, lib, ref, lvl, p_opt):
    seps=['^','&']; dt=ref[2]
    if ref[0]=='leaf' or lib.is_base_datatype(dt) or dt=='varies':
        return LEAF.get(dt,'A')
    kids = ref[1] if ref[1] else lib.DATATYPES_STRUCTS.get(dt)
    if kids is None or lvl>=2: return 'A'
    out=[]
    for c in kids:
        mn,mx=c[2]
        if mx!=0 and (mn>=1 or rnd.random()<p_opt): out.append(build_dt(rnd,lib,c[1],lvl+1,p_opt))
        else: out.append('')
    while out and out[-1]=='': out.pop()
    if not out:
        # need at least something: first allowed child
        for i,c in enumerate(kids):
            if c[2][1]!=0: out=['']*i+[build_dt(rnd,lib,c[1],lvl+1,p_opt)]; break
    return seps[lvl].join(out)
def build_segment(rnd, lib, name, ref, p_opt):
    byidx={int(c[0].split('_')[1]):c for c in ref[1]}
    out=[]
    for i in range(1,max(byidx)+1):
        c=byidx.get(i)
        if c is None: out.append(''); continue
        mn,mx=c[2]
        if mx!=0 and (mn>=1 or rnd.random()<p_opt):
            n=max(mn,1)
            if (mx==-1 or mx>n) and rnd.random()<0.3: n+=1
            out.append('~'.join(build_dt(rnd,lib,c[1],0,p_opt) for _ in range(n)))
        else: out.append('')
    while out and out[-1]=='': out.pop()
    return name+'|'+'|'.join(out) if out else name
def name_places(struct, acc=None):
    acc = collections.Counter() if acc is None else acc
    for c in struct[1]:
        if c[3]=='SEG': acc[c[0]]+=1
        else: name_places(c[1], acc)
    return acc
def anchor(struct):
    """index of first direct SEG child with max==1 whose predecessors are all optional, else None"""
    for i,c in enumerate(struct[1]):
        if c[3]=='SEG' and c[2][1]==1: return i
        if c[2][0]>=1: return None
    return None
def tree(rnd, struct, places, p_opt, rep_index=0, anchor_idx=None):
    out=[]
    for i,(name,ref,(mn,mx),cls) in enumerate(struct[1]):
        if mx==0: continue
        must = mn>=1 or (anchor_idx is not None and i==anchor_idx)
        if rep_index>0 and anchor_idx is not None and i<anchor_idx: continue   # omit predecessors of the anchor in later reps
        if cls=='SEG':
            if places[name]>1 and not must: continue      # optional ambiguous name: skip
            n = max(mn,1) if (must or rnd.random()<p_opt) else 0
            if n and (mx==-1 or mx>n) and rnd.random()<0.3: n+=1
            for _ in range(n): out.append((name,ref,'S',None))
        else:
            if not (must or rnd.random()<p_opt): continue
            a=anchor(ref)
            n=max(mn,1)
            if a is not None and (mx==-1 or mx>n) and rnd.random()<0.4: n+=1
            for r in range(n):
                sub=tree(rnd,ref,places,p_opt*0.7,r,a)
                if not sub:
                    # force non-empty: include first usable child
                    sub=tree(rnd,ref,places,1.0,r,a)
                if sub: out.append((name,ref,'G',sub))
    return out
def eligible(t, places):
    return all(places[n]==1 for n,_ in flat(t))
