import sys, collections, random, time
from conf2 import build_msh, flat, shape, dupsib
from conf3 import *
from hl7apy.core import Message, Segment
from hl7apy.parser import parse_message
rnd=random.Random(int(sys.argv[1]) if len(sys.argv)>1 else 1)
res=collections.Counter(); ex={}; kinds=collections.Counter()
def build(parent, t, lib, rnd):
    for (n,ref,k,ch) in t:
        if k=='S':
            if n=='MSH': continue
            s=parent.add_segment(n); s.value=build_segment(rnd,lib,n,ref,0.3)
        else:
            g=parent.add_group(n); build(g,ch,lib,rnd)
t0=time.time()
for v in sorted(hl7apy.SUPPORTED_LIBRARIES):
    lib=load_library(v)
    names=[m for m,r in sorted(lib.MESSAGES.items()) if r[0]=='sequence' and r[1] and m.upper()==m]
    for mname in rnd.sample(names, min(40,len(names))):
        mref=lib.MESSAGES[mname]
        if dupsib(mref): res['skip-dupsib']+=1; continue
        places=collections.Counter()   # no uniqueness restriction for the API route
        t=tree(rnd,mref,places,0.5)
        segs=flat(t)
        if not segs or segs[0][0]!='MSH' or any(n in BADSEG for n,_ in segs): res['skip']+=1; continue
        try:
            m=Message(mname, version=v)
            m.msh.value=build_msh(rnd,lib,v,mname,segs[0][1],0.0) if False else m.msh.value
            mshtxt=build_msh(rnd,lib,v,mname,segs[0][1],0.0)
            m.msh=mshtxt
            build(m,t,lib,rnd)
            r=m.validate(return_errors=True)
        except Exception as e:
            import traceback
            k=('exc',type(e).__name__); res[k]+=1; ex.setdefault(k,(v,mname,str(e)[:100])); continue
        if any(k=='G' for (_,_,k,_) in t): res['with-groups']+=1
        if r.is_valid: res['valid']+=1
        else:
            res['INVALID']+=1
            for e in r.errors:
                k=' '.join(str(e).split(' ')[0:3]); kinds[(v,k)]+=1; ex.setdefault((v,k),(mname,str(e)[:150]))
print(time.time()-t0)
for k in sorted(res,key=str): print(k,res[k],repr(ex.get(k,''))[:400])
for k,c in kinds.most_common(20): print(k,c,repr(ex[k])[:300])
