import hl7apy, collections, traceback
from hl7apy.consts import VALIDATION_LEVEL as VL
from hl7apy.core import *
from hl7apy.parser import *
from hl7apy.factories import datatype_factory
EC={'FIELD':'|','COMPONENT':'^','SUBCOMPONENT':'&','REPETITION':'~','ESCAPE':'\\','SEGMENT':'\r','GROUP':'\r'}
EC2={'FIELD':'!','COMPONENT':'@','SUBCOMPONENT':'%','REPETITION':'*','ESCAPE':'$','SEGMENT':'\r','GROUP':'\r'}
long='X'*250
def corpus():
    calls=[]
    for v in ('2.3','2.5','2.7'):
        for lvl in (VL.STRICT, VL.TOLERANT):
            calls += [
              ('parse_message',lambda v=v,lvl=lvl: parse_message('MSH|^~\\&|A|B|C|D|20200101||ADT^A01^ADT_A01|1|P|%s\rEVN|A\rPID|1||X^^^Y&Z||N^M~Q\rPV1|1|I'%v, validation_level=lvl).to_er7()),
              ('parse_message_long',lambda v=v,lvl=lvl: parse_message('MSH|^~\\&|A|B|C|D|20200101||ADT^A01^ADT_A01|1|P|%s\rEVN|A\rPID|1||%s\rPV1|1|I'%(v,long), validation_level=lvl).to_er7()),
              ('parse_segment',lambda v=v,lvl=lvl: parse_segment('PID|1||X^^^Y&Z||N^M~Q|||F', version=v, validation_level=lvl, encoding_chars=EC).to_er7()),
              ('parse_segment_bad',lambda v=v,lvl=lvl: parse_segment('PID|abc||X|||2020ab', version=v, validation_level=lvl, encoding_chars=EC).to_er7()),
              ('parse_segment_long',lambda v=v,lvl=lvl: parse_segment('PID|1||%s'%long, version=v, validation_level=lvl, encoding_chars=EC).to_er7()),
              ('parse_field',lambda v=v,lvl=lvl: parse_field('A^B&C', 'PID_3', version=v, validation_level=lvl, encoding_chars=EC).to_er7()),
              ('parse_component',lambda v=v,lvl=lvl: parse_component('A&B', 'CX_4', version=v, validation_level=lvl, encoding_chars=EC).to_er7()),
              ('Message',lambda v=v,lvl=lvl: (lambda m: (setattr(m.msh,'msh_7','2020'), m.to_er7())[1])(Message('ADT_A01', version=v, validation_level=lvl, encoding_chars=EC))),
              ('Segment_build',lambda v=v,lvl=lvl: (lambda s: (setattr(s,'pid_5','A^B'), setattr(s.pid_3,'cx_1','7'), s.to_er7(EC))[2])(Segment('PID', version=v, validation_level=lvl))),
              ('Field_varies',lambda v=v,lvl=lvl: (lambda f: (setattr(f,'value','A^B'), f.to_er7(EC))[1])(Field('OBX_5', version=v, validation_level=lvl))),
              ('Component_dt',lambda v=v,lvl=lvl: (lambda c: (setattr(c,'value','A&B'), c.to_er7(EC))[1])(Component(datatype='CE', version=v, validation_level=lvl))),
              ('SubComponent',lambda v=v,lvl=lvl: SubComponent(datatype='NM', value='12', version=v, validation_level=lvl).to_er7(EC)),
              ('factory_bad',lambda v=v,lvl=lvl: datatype_factory('DT','20xx',v,lvl).to_er7(EC)),
              ('factory_long',lambda v=v,lvl=lvl: datatype_factory('DT',long,v,lvl).to_er7(EC)),
              ('validate',lambda v=v,lvl=lvl: [str(e) for e in parse_message('MSH|^~\\&|A|B|C|D|20200101||ADT^A01^ADT_A01|1|P|%s\rEVN|A\rPID|1||X^^^Y&Z||N^M~Q\rPV1|1|I'%v, validation_level=lvl).validate(return_errors=True).errors]),
              ('add_subcomponent',lambda v=v,lvl=lvl: (lambda c: (c.add_subcomponent('CE_1'), c.to_er7(EC))[1])(Component(datatype='CE', version=v, validation_level=lvl))),
            ]
    return calls
def run():
    out=[]
    for name,f in corpus():
        try: out.append((name,'ok',f()))
        except Exception as e: out.append((name,'exc',type(e).__name__,str(e)[:60]))
    return out
base=None
import itertools
diffs=collections.Counter(); ex={}
for dv,dl,dec in itertools.product(('2.5','2.2','2.8'),(VL.TOLERANT,VL.STRICT),(EC,EC2)):
    hl7apy.set_default_version(dv); hl7apy.set_default_validation_level(dl); hl7apy.set_default_encoding_chars(dict(dec))
    r=run()
    if base is None: base=r; continue
    for a,b in zip(base,r):
        if a!=b: k=(a[0],); diffs[(a[0],dv,dl,dec['FIELD'])]+=1; ex.setdefault(a[0],(dv,dl,dec['FIELD'],a,b))
for k,v in ex.items(): print(k, repr(v)[:400])
