import hl7apy, collections, random
from hl7apy import load_library
from hl7apy.core import Segment, Field, Component
from hl7apy.exceptions import ChildNotFound, ChildNotValid
res=collections.Counter(); ex={}
def note(k,v): res[k]+=1; ex.setdefault(k,v)
rnd=random.Random(1)
def mix(s): return ''.join(c.upper() if rnd.random()<0.5 else c.lower() for c in s)
for v in ('2.2','2.5','2.7'):
    lib=load_library(v)
    for sname,sref in sorted(lib.SEGMENTS.items()):
        if sref[0]!='sequence' or len(sref)<2 or not sref[1] or sname in ('ORO','RX1'): continue
        for c in sref[1]:
            fname,fref=c[0],c[1]; dt=fref[2]
            if fref[0]!='sequence' or not fref[1]: continue
            st=fref[1]
            longs=collections.Counter(x[1][3] for x in st)
            for j,cc in enumerate(st, start=1):
                cname=cc[0]; cl=cc[1][3]; cdt=cc[1][2]
                spell=[cname, cname.lower(), mix(cname), '%s_%d'%(fname,j), mix('%s_%d'%(fname,j))]
                if cl and longs[cl]==1 and cl.lower() not in [a.lower() for a in Field.cls_attrs]: spell += [cl, cl.lower(), mix(cl)]
                else: note((v,'skip-long'),(fname,cl))
                try:
                    f=Field(fname,version=v)
                    a=rnd.choice(spell); b=rnd.choice(spell); d=rnd.choice(spell)
                    setattr(f,a,'X')
                    names=[x.name for x in f.children]
                    if names!=[cname]: note((v,'WRONG-SET'),(fname,a,names)); continue
                    g=getattr(f,b)
                    if len(g)!=1 or g[0] is not f.children[0]: note((v,'WRONG-GET'),(fname,a,b)); continue
                    if f.to_er7()!='^'*(j-1)+'X': note((v,'WRONG-POS'),(fname,a,f.to_er7())); continue
                    delattr(f,d)
                    if len(f.children)!=0: note((v,'WRONG-DEL'),(fname,d)); continue
                    note((v,'ok'),None)
                except Exception as e:
                    note((v,'exc',type(e).__name__),(fname,cname,str(e)[:80]))
            # negative space
            f=Field(fname,version=v); before=(f.to_er7(), len(f.children))
            for bad in ('%s_%d'%(fname,len(st)+1), '%s_0'%fname, 'ZZ_1', '%s_1_99'%fname, 'PID_3_1' if fname!='PID_3' else 'PID_5_1', 'NOPE', '%s_x'%fname):
                try:
                    r=getattr(f,bad); note((v,'NEG-RETURNED'),(fname,bad,repr(r)[:60]))
                except (ChildNotFound, ChildNotValid): note((v,'neg-ok'),None)
                except Exception as e: note((v,'NEG-EXC',type(e).__name__),(fname,bad,str(e)[:60]))
                try:
                    setattr(f,bad,'Q'); note((v,'NEG-SET-ACCEPTED'),(fname,bad,f.to_er7()))
                    f=Field(fname,version=v)
                except (ChildNotFound, ChildNotValid): pass
                except Exception as e: note((v,'NEG-SET-EXC',type(e).__name__),(fname,bad,str(e)[:60]))
            if (f.to_er7(), len(f.children))!=before: note((v,'NEG-CHANGED'),(fname,))
for k in sorted(res,key=str): print(k,res[k],repr(ex[k])[:250])
