import hl7apy, collections
from hl7apy import load_library
from hl7apy.core import Field, Component
from hl7apy.parser import parse_field
res=collections.Counter(); ex={}
def note(k,v): res[k]+=1; ex.setdefault(k,v)
for v in sorted(hl7apy.SUPPORTED_LIBRARIES):
    lib=load_library(v)
    for dt,st in sorted(lib.DATATYPES_STRUCTS.items()):
        # field of that datatype: use Z-field with datatype
        for j,c in enumerate(st, start=1):
            cname=c[0]; cdt=c[1][2]
            if int(cname.rsplit('_',1)[1])!=j: note((v,'comp-gap'),(dt,cname,j))
            try:
                f=Field('ZZZ_1', datatype=dt, version=v)
                setattr(f,cname,'X')
                er=f.to_er7()
                if er!='^'*(j-1)+'X': note((v,'comp-enc'),(dt,cname,er))
                p=parse_field('^'*(j-1)+'X', name='ZZZ_1', version=v, reference=('sequence', st, dt, None,None,-1))
                if [x.name for x in p.children]!=[cname] or p.to_er7()!='^'*(j-1)+'X': note((v,'comp-parse'),(dt,cname,[x.name for x in p.children],p.to_er7()))
                else: note((v,'ok'),None)
            except Exception as e:
                note((v,'comp-exc',type(e).__name__),(dt,cname,str(e)[:80]))
            if not lib.is_base_datatype(cdt) and cdt in lib.DATATYPES_STRUCTS:
                for k,sc in enumerate(lib.DATATYPES_STRUCTS[cdt], start=1):
                    try:
                        f=Field('ZZZ_1', datatype=dt, version=v)
                        comp=getattr(f,cname)
                        setattr(comp, sc[0], 'Y')
                        er=f.to_er7(); exp='^'*(j-1)+'&'*(k-1)+'Y'
                        if er!=exp: note((v,'sub-enc'),(dt,cname,sc[0],er))
                        else: note((v,'ok-sub'),None)
                    except Exception as e:
                        note((v,'sub-exc',type(e).__name__),(dt,cname,sc[0],str(e)[:80]))
for k in sorted(res,key=str): print(k,res[k],repr(ex[k])[:250])
