#!/bin/bash
# usage: runmut.sh <name>  -> prepares /var/tmp/hl7mut with that mutant; prints SURVIVES/KILLED by tests
rsync -a --delete --exclude .git --exclude __pycache__ /repo/ /var/tmp/hl7mut/
cd /var/tmp/hl7mut
/venv/bin/python - "$1" <<'PY'
import sys; sys.path.insert(0,'/tmp/x')
from mutants import MUT
f,old,new=MUT[sys.argv[1]]
s=open(f).read(); assert s.count(old)>=1,(sys.argv[1],'pattern not found'); open(f,'w').write(s.replace(old,new,1))
PY
[ $? -eq 0 ] || { echo "$1 PATTERN-FAIL"; exit; }
r=$(/venv/bin/python -m pytest -q -p no:cacheprovider --timeout=900 -x 2>&1 | tail -1)
echo "$1 :: $r"
