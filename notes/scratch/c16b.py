import socket, threading, time, collections
from hl7apy.mllp import MLLPServer, MLLPRequestHandler, AbstractHandler, AbstractErrorHandler
log=[]; lock=threading.Lock()
class H(AbstractHandler):
    def __init__(self,msg,tag): super().__init__(msg); self.tag=tag
    def reply(self):
        with lock: log.append(('H',self.tag,self.incoming_message))
        return '\x0bR:%s:%s\x1c\r' % (self.tag, self.incoming_message.split('|')[9])
class E(AbstractErrorHandler):
    def reply(self):
        with lock: log.append(('E',type(self.exc).__name__,self.incoming_message))
        return '\x0bERR:%s\x1c\r' % type(self.exc).__name__
class CountingRH(MLLPRequestHandler):
    pass
import sys, io
srv=MLLPServer('127.0.0.1',0,{'ADT^A01^ADT_A01':(H,'a01'),'ERR':(E,)},timeout=1, request_handler_class=CountingRH)
port=srv.server_address[1]
threading.Thread(target=srv.serve_forever,daemon=True).start()
def client(chunks, out, i, barrier=None, close_early=False):
    s=socket.create_connection(('127.0.0.1',port)); s.settimeout(5)
    if barrier: barrier.wait()
    try:
        for c in chunks: s.sendall(c); time.sleep(0.005)
        if close_early: s.close(); out[i]=b'<closed>'; return
        data=b''
        while True:
            d=s.recv(4096)
            if not d: break
            data+=d
        out[i]=data
    except Exception as e: out[i]=('EXC',type(e).__name__)
    finally:
        try: s.close()
        except: pass
def frame(i, typ='ADT^A01^ADT_A01'):
    return ('\x0bMSH|^~\\&|A|B|C|D|20200101||%s|ID%d|P|2.5\rPID|1||X%d\r\x1c\r'%(typ,i,i)).encode()
# concurrency
N=8
for rnd in range(3):
    log.clear(); out=[None]*N; b=threading.Barrier(N)
    th=[threading.Thread(target=client,args=([frame(i)[:5],frame(i)[5:40],frame(i)[40:]],out,i,b)) for i in range(N)]
    t0=time.time()
    for t in th: t.start()
    for t in th: t.join()
    ok=all(out[i]==('\x0bR:a01:ID%d\x1c\r'%i).encode() for i in range(N))
    print('conc',ok,len(log),round(time.time()-t0,2))
# faults
err=sys.stderr; sys.stderr=io.StringIO()
cases={
 'unregistered': [frame(1,'ADT^A02^ADT_A02')],
 'nonhl7': [b'\x0bhello world\r\x1c\r'],
 'no-sb': [b'MSH|^~\\&|A\r\x1c\r'],
 'truncated-close': [frame(1)[:30]],
 'bad-utf8': [b'\x0bMSH|^~\\&|\xff\xfe|B\r\x1c\r'],
 'trailing-bytes': [frame(1)+b'EXTRA'],
 'empty': [b''],
 'only-sb': [b'\x0b'],
 'two-frames': [frame(1)+frame(2)],
 'short-msh2-5': [b'\x0bMSH|^~\\&#|A|B\r\x1c\r'],
}
for k,ch in cases.items():
    log.clear(); out=[None]; t0=time.time()
    client(ch,out,0)
    time.sleep(0.05)
    print(k, out[0], [ (l[0],l[1]) for l in log], round(time.time()-t0,2))
log.clear(); out=[None]; t0=time.time(); client([frame(1)[:30]],out,0,close_early=True); time.sleep(0.2); print('early-close',out[0],log,round(time.time()-t0,2))
sys.stderr=err
