import random, collections, string
from hl7apy.core import Message
from hl7apy.parser import parse_message
P=[c for c in string.punctuation if c not in '._']
rnd=random.Random(2)
res=collections.Counter(); ex={}
for n in range(3000):
    v=rnd.choice(['2.3','2.5','2.6','2.7','2.8.2'])
    k=6 if (v>='2.7' and rnd.random()<0.5) else 5
    cs=rnd.sample(P,k)
    ec={'FIELD':cs[0],'COMPONENT':cs[1],'REPETITION':cs[2],'ESCAPE':cs[3],'SUBCOMPONENT':cs[4],'SEGMENT':'\r','GROUP':'\r'}
    if k==6: ec['TRUNCATION']=cs[5]
    other=''.join(c for c in P if c not in cs)
    try:
        m=Message('ADT_A01',version=v,encoding_chars=dict(ec))
        m.msh.msh_7='20200101'
        m.msh.msh_9='ADT%sA01%sADT_A01'%(ec['COMPONENT'],ec['COMPONENT'])
        m.pid.pid_5.xpn_1.fn_1='x'+other[:5]
        m.pid.pid_3='a%sb%s%sc%sd'%(ec['COMPONENT'],ec['COMPONENT'],ec['COMPONENT'],ec['SUBCOMPONENT'])
        f=m.pid.add_field('pid_3'); f.value='second'
        t=m.to_er7()
        got=m.encoding_chars
        exp=dict(ec)
        if got!=exp: res['ec-readback']+=1; ex.setdefault('ec-readback',(v,ec,got))
        if t[3]!=ec['FIELD'] or not t[4:].startswith(''.join(cs[1:k])+ec['FIELD']): res['msh12']+=1; ex.setdefault('msh12',(v,cs,t[:12]))
        p=parse_message(t)
        if p.to_er7()!=t: res['rt']+=1; ex.setdefault('rt',(v,cs,t,p.to_er7()))
        elif p.encoding_chars!=got: res['rt-ec']+=1; ex.setdefault('rt-ec',(v,cs))
        else: res['ok']+=1
        # expected text by reference
        F,C,R,E,S=cs[:5]
        exp_pid='PID'+F*3+'a'+C+'b'+C+C+'c'+S+'d'+R+'second'+F*2+'x'+other[:5]
        if t.split('\r')[1]!=exp_pid: res['ref-diff']+=1; ex.setdefault('ref-diff',(v,cs,t.split('\r')[1],exp_pid))
    except Exception as e:
        kx=('exc',type(e).__name__); res[kx]+=1; ex.setdefault(kx,(v,cs,str(e)[:100]))
for k in sorted(res,key=str): print(k,res[k],repr(ex.get(k,''))[:500])
