import random, collections, sys
from gen import *
from gmsg import msh
from hl7apy.parser import parse_message
from hl7apy.exceptions import HL7apyException
from conf3 import name_places, BADSEG
rnd=random.Random(int(sys.argv[1]) if len(sys.argv)>1 else 1)
def leaves(text):
    out=[]
    for line in text.split('\r'):
        if not line: continue
        name=line[:3]
        body=line[4:] if name!='MSH' else line[9:]  # skip MSH|^~\&|
        lv=[x for f in body.split('|') for r in f.split('~') for c in r.split('^') for x in c.split('&') if x!='']
        out.append((name,lv))
    return out
def allnames(struct, acc):
    for c in struct[1]:
        if c[3]=='SEG': acc.add(c[0])
        else: allnames(c[1],acc)
    return acc
res=collections.Counter(); ex={}
for n in range(1500):
    v=rnd.choice(VERSIONS); lib=load_library(v)
    ms=[m for m,r in lib.MESSAGES.items() if r[0]=='sequence' and r[1]]
    mname=rnd.choice(sorted(ms)); inn=sorted(allnames(lib.MESSAGES[mname],set())-BADSEG-{'MSH'})
    if not inn: continue
    lines=[msh(v,mname)]
    foreign=False
    for _ in range(rnd.randint(1,6)):
        r=rnd.random()
        if r<0.7: s=rnd.choice(inn); line=gen_segment(rnd,v,s)
        elif r<0.85:
            s=rnd.choice([x for x in sorted(lib.SEGMENTS) if x not in BADSEG and x!='MSH']); line=gen_segment(rnd,v,s); foreign = foreign or s not in inn
        else: line='Z%s%s|a|b^c'%(rnd.choice('ABC'),rnd.choice('123')); foreign=True
        if rnd.random()<0.2: line+= '|'*rnd.randint(1,60)+'EXTRA^x&y'
        if rnd.random()<0.2: line+= '^'*rnd.randint(1,30)+'XC'
        lines.append(line)
    txt='\r'.join(lines)
    for fg in (True,False):
        try: m=parse_message(txt, find_groups=fg)
        except HL7apyException as e: res[('rej',fg,type(e).__name__)]+=1; continue
        except Exception as e: k=('crash',fg,type(e).__name__); res[k]+=1; ex.setdefault(k,(v,txt[:300],str(e)[:80])); continue
        try: o=m.to_er7()
        except Exception as e: k=('er7crash',fg,type(e).__name__); res[k]+=1; ex.setdefault(k,(v,txt[:300])); continue
        a=leaves(txt); b=leaves(o)
        if a==b: res[('ok',fg,foreign)]+=1
        else:
            an=[x[0] for x in a]; bn=[x[0] for x in b]
            if an!=bn: k=('SEGS-DIFF',fg,foreign)
            else: k=('LEAVES-DIFF',fg,foreign)
            res[k]+=1; ex.setdefault(k,(v,mname,[(x[0][0],[p for p in zip(x[0][1],x[1][1]) if p[0]!=p[1]][:3], len(x[0][1]),len(x[1][1])) for x in zip(a,b) if x[0]!=x[1]][:2] if an==bn else (an,bn)))
for k in sorted(res,key=str): print(k,res[k],repr(ex.get(k,''))[:700])
