#!/opt/veriftools/pyvenv/bin/python
"""Validate MANIFEST.json and every evidence file against the harness schemas (tooling venv has jsonschema)."""
import json, sys, glob, os
import jsonschema
here = os.path.dirname(os.path.dirname(os.path.abspath(__file__)))
ok = True
try:
    jsonschema.validate(json.load(open(os.path.join(here, 'MANIFEST.json'))), json.load(open('/root/.vp/MANIFEST.schema.json')))
    print('MANIFEST.json valid')
except Exception as e:
    ok = False; print('MANIFEST.json INVALID:', e)
es = json.load(open('/root/.vp/EVIDENCE.schema.json'))
for p in sorted(glob.glob(os.path.join(here, 'evidence', '*.json'))):
    try:
        jsonschema.validate(json.load(open(p)), es); print(os.path.basename(p), 'valid')
    except Exception as e:
        ok = False; print(os.path.basename(p), 'INVALID:', str(e)[:300])
sys.exit(0 if ok else 1)
