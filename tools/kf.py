#!/venv/bin/python
"""Append/replace an entry of known_findings.json (authoring helper; never used by checks)."""
import json, sys
path='known_findings.json'
d=json.load(open(path))
e=json.loads(sys.stdin.read())
d['findings']=[x for x in d['findings'] if x['id']!=e['id']]+[e]
json.dump(d,open(path,'w'),indent=1); open(path,'a').write('\n')
print('findings:', [x['id']+':'+x['status'] for x in d['findings']])
