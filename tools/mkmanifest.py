#!/venv/bin/python
"""Regenerate MANIFEST.json from the property modules that exist (hv/props/cNN.py)."""
import os, sys, json, importlib
here = os.path.dirname(os.path.dirname(os.path.abspath(__file__)))
sys.path.insert(0, here)
os.chdir(here)
props = [json.loads(l) for l in open('properties.jsonl')]
checks, na = [], []
for p in props:
    pid = p['id']
    path = os.path.join('hv', 'props', pid.lower() + '.py')
    if not os.path.exists(path):
        na.append({'property_id': pid, 'reason': 'check not built yet (work in progress); the technique applies, see DESIGN.md section 3'})
        continue
    m = importlib.import_module('hv.props.' + pid.lower())
    checks.append({
        'property_id': pid,
        'quick_cmd': './check %s --tier quick' % pid,
        'thorough_cmd': './check %s --tier thorough' % pid,
        'evidence_file': 'evidence/%s.json' % pid,
        'replay_cmd_template': './check %s --replay {path}' % pid,
        'engine': 'hv',
        'level_claimed': {'category': m.LEVEL, 'text': m.LEVEL_TEXT, 'design_ref': 'DESIGN.md section 3, ' + pid},
        'level_note': m.LEVEL_NOTE,
        'technique': m.TECHNIQUE,
    })
baseline = json.load(open('/root/.vp/BASELINE.json'))['cmd'] if os.path.exists('/root/.vp/BASELINE.json') else \
    'cd /repo && /venv/bin/python -m pytest -ra -q -p no:cacheprovider --timeout=900 --continue-on-collection-errors --junitxml=<file>'
man = {
    'version': 1,
    'setup_cmd': './setup.sh',
    'hooks': {'guard': 'HL7APY_VERIF', 'enable': 'not needed: no source hooks; checks import hl7apy straight from /repo (pure Python, nothing to build)',
              'baseline_off_cmd': baseline, 'source_commits': [], 'add_only': True},
    'engines': [{'name': 'hv', 'path': 'hv/', 'serves_properties': [c['property_id'] for c in checks],
                 'kind_free_text': 'property-based testing / fuzzing harness: Hypothesis strategies and rule-based state machines, exhaustive table-driven enumeration sharded over 16 processes, reference ER7 model, controlled thread scheduler'}],
    'checks': checks,
    'not_applicable': na,
    'notes': 'Every check: exit 0 = held on everything explored (KNOWN-FINDING lines for defects listed in known_findings.json), exit 1 + VIOLATION line otherwise, exit 2 = harness error. VERIF_SEED selects the seed; VERIF_REPO (default /repo) selects the tree under test.',
}
json.dump(man, open('MANIFEST.json', 'w'), indent=1)
open('MANIFEST.json', 'a').write('\n')
print('checks:', [c['property_id'] for c in checks], 'n/a:', [x['property_id'] for x in na])
