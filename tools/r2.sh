#!/bin/bash
# import round-2 seeded changes of a property (ids <P>-3, <P>-4) and run the owning check against them
p=$1
for n in 1 2; do [ -d /tmp/wt2/$p/_out/$n ] && tools/seeded.py import /tmp/wt2/$p/_out/$n $p-$((n+2)) $p 2>&1 | grep -v conda; done
tools/seeded.py run $p-3 $p-4 2>&1 | grep -v conda | cut -c1-220
