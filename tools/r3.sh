#!/bin/bash
# import round-3 seeded changes of a property (ids <P>-5, <P>-6) and run the owning check against them
p=$1
for n in 1 2; do [ -d /tmp/wt3/$p/_out/$n ] && tools/seeded.py import /tmp/wt3/$p/_out/$n $p-$((n+4)) $p 2>&1 | grep -v conda; done
tools/seeded.py run $p-5 $p-6 2>&1 | grep -v conda | cut -c1-220
