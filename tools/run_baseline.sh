#!/bin/bash
# run the pinned test-suite of the repository (or of $1) serially; prints the summary lines.
# tests/test_mllp.py binds a fixed TCP port: it is run separately and retried when another run holds the port.
cd "${1:-/repo}" || exit 2
/venv/bin/python -m pytest -q -p no:cacheprovider --timeout=900 -q --deselect tests/test_mllp.py --ignore=tests/test_mllp.py 2>&1 | tail -2
for i in 1 2 3 4 5 6; do
  out=$(/venv/bin/python -m pytest -q -p no:cacheprovider --timeout=900 -q tests/test_mllp.py 2>&1 | tail -2)
  if echo "$out" | grep -q "Address already in use\|error"; then sleep 7; else break; fi
done
echo "$out"
# interim check while other runs hold port 2576: same MLLP tests on another port (copy outside the repository)
if echo "$out" | grep -q "rror"; then
  t=/var/tmp/mllp-test-$$; mkdir -p $t; sed "s/^PORT = 2576/PORT = $((20000 + RANDOM % 20000))/" tests/test_mllp.py > $t/test_mllp_altport.py
  PYTHONPATH="$PWD" /venv/bin/python -m pytest -q -p no:cacheprovider $t/test_mllp_altport.py 2>&1 | tail -1; rm -rf $t
fi
