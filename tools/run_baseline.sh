#!/bin/bash
# run the pinned test-suite of the repository (or of $1) serially; prints the summary line
cd "${1:-/repo}" && /venv/bin/python -m pytest -q -p no:cacheprovider --timeout=900 -x -q 2>&1 | tail -3
