#!/bin/bash
# usage: tools/run_all.sh <tier> [props...] : runs the checks one after the other, prints one summary line each
tier=${1:-quick}; shift
props=${@:-C01 C02 C03 C04 C05 C06 C07 C08 C09 C10 C11 C12 C13 C14 C15 C16 C17 C18 C19}
cd "$(dirname "$0")/.."
for p in $props; do
  out=$(./check $p --tier $tier 2>&1); rc=$?
  echo "$p exit=$rc :: $(echo "$out" | grep -E "^$p tier" | tail -1)"
  echo "$out" | grep -E "^VIOLATION|signature:|detail:|HARNESS" | cut -c1-400 | head -12
done
