#!/bin/bash
# usage: tools/mutant.sh <name> <python-edit-script-or-patch> <PROP> [PROP...]   (env TESTS=1 also runs the pinned tests)
# Applies a source mutation to a scratch copy of /repo (outside /repo and /verif), runs the given checks against it
# with VERIF_REPO, prints one line per check, and removes the copy.
name=$1; edit=$2; shift 2
d=/var/tmp/hl7m-$name-$$
rm -rf "$d"; mkdir -p "$d"; cp -r /repo/hl7apy /repo/tests /repo/setup.py /repo/setup.cfg /repo/VERSION /repo/README.md "$d"/ 2>/dev/null
cp -r /repo/examples "$d"/ 2>/dev/null
if [[ "$edit" == *.diff || "$edit" == *.patch ]]; then (cd "$d" && patch -p1 -s < "$edit") || { echo "patch failed"; rm -rf "$d"; exit 2; }
else (cd "$d" && python3 "$edit") || { echo "edit failed"; rm -rf "$d"; exit 2; }; fi
if [ -n "$TESTS" ]; then
  t=$(cd "$d" && PYTHONPATH="$d" /venv/bin/python -m pytest -q -p no:cacheprovider -x tests 2>&1 | tail -1); echo "  pinned tests: $t"
fi
for p in "$@"; do
  out=$(cd /verif && VERIF_REPO="$d" timeout 900 ./check "$p" --tier ${TIER:-quick} 2>&1 | grep -v conda)
  rc=$?
  nv=$(echo "$out" | grep -c '^VIOLATION')
  echo "  mutant=$name check=$p violations=$nv :: $(echo "$out" | grep -m1 'signature:' | cut -c1-160)"
  if echo "$out" | grep -q HARNESS; then echo "$out" | grep -A8 HARNESS | head -12; fi
done
rm -rf "$d" /verif/replays/*/v-*.json
