#!/bin/bash
# import round-5 seeded changes of a property (ids <P>-9, <P>-10) and run the owning check against them
p=$1
for n in 1 2; do [ -d /tmp/wt7/$p/_out/$n ] && tools/seeded.py import /tmp/wt7/$p/_out/$n $p-$((n+8)) $p 2>&1 | grep -v conda; done
tools/seeded.py run $p-9 $p-10 2>&1 | grep -v conda | cut -c1-220
