#!/venv/bin/python
"""Manage seeded changes (independent realistic breakages written by sub-agents).

  tools/seeded.py import <dir with patch.diff demo.py notes.md> <id> <property>   verify + store under seeded/<id>/
  tools/seeded.py run [<id> ...] [--tier quick|thorough] [--checks C01,C02]        run checks against each stored change

A change is applied to a scratch copy of /repo (never to /repo itself); the copy is removed afterwards."""
import os, sys, json, shutil, subprocess, tempfile, re, time

VERIF = os.path.dirname(os.path.dirname(os.path.abspath(__file__)))
REPO = '/repo'
ENV = dict(os.environ, PYTHONDONTWRITEBYTECODE='1')


def sh(cmd, cwd=None, env=None, timeout=1800):
    p = subprocess.run(cmd, shell=True, cwd=cwd, env=env or ENV, stdout=subprocess.PIPE, stderr=subprocess.STDOUT, timeout=timeout)
    return p.returncode, p.stdout.decode('utf-8', 'replace')


def scratch(patch):
    d = tempfile.mkdtemp(prefix='hl7seed-', dir='/var/tmp')
    for n in ('hl7apy', 'tests', 'examples'):
        shutil.copytree(os.path.join(REPO, n), os.path.join(d, n), ignore=shutil.ignore_patterns('__pycache__'))
    for n in ('setup.py', 'setup.cfg', 'VERSION', 'README.md'):
        if os.path.exists(os.path.join(REPO, n)):
            shutil.copy(os.path.join(REPO, n), d)
    sh('git init -q . && git add -A && git -c user.email=a@b -c user.name=x commit -q -m base', cwd=d)
    rc, out = sh('git apply --whitespace=nowarn %s' % patch, cwd=d)
    if rc != 0:
        rc, out2 = sh('patch -p1 -s -F3 < %s' % patch, cwd=d)
        if rc != 0:
            shutil.rmtree(d)
            return None, out + out2
    return d, ''


def run_tests(d):
    env = dict(ENV, PYTHONPATH=d)
    rc1, o1 = sh('/venv/bin/python -m pytest -q -p no:cacheprovider --ignore=tests/test_mllp.py tests 2>&1 | tail -3', cwd=d, env=env)
    port = 20000 + (os.getpid() * 7 + int(time.time())) % 20000
    sh("sed 's/^PORT = 2576/PORT = %d/' tests/test_mllp.py > tests/test_mllp_alt.py" % port, cwd=d)
    rc2, o2 = sh('/venv/bin/python -m pytest -q -p no:cacheprovider tests/test_mllp_alt.py 2>&1 | tail -2', cwd=d, env=env)
    os.remove(os.path.join(d, 'tests', 'test_mllp_alt.py'))
    ok = ('passed' in o1 and 'failed' not in o1 and 'error' not in o1.lower()) and ('passed' in o2 and 'failed' not in o2 and 'error' not in o2.lower())
    return ok, (o1.strip().splitlines()[-1:] + o2.strip().splitlines()[-1:])


def run_demo(root, demo):
    rc, out = sh('/venv/bin/python %s' % demo, cwd=root, env=dict(ENV, PYTHONPATH=root), timeout=300)
    return rc, out[-400:]


def cmd_import(src, sid, prop):
    dst = os.path.join(VERIF, 'seeded', sid)
    patch = os.path.join(src, 'patch.diff')
    demo = os.path.join(src, 'demo.py')
    d, err = scratch(patch)
    meta = {'id': sid, 'property': prop, 'source': 'independent sub-agent given only the property text and a scratch worktree'}
    if d is None:
        print('%s: patch does not apply to the current tree: %s' % (sid, err[:300]))
        return 1
    try:
        ok, tl = run_tests(d)
        rc_with, o_with = run_demo(d, demo)
        rc_without, o_without = run_demo(REPO, demo)
        meta.update(tests_pass_with_change=ok, tests_summary=tl, demo_exit_with_change=rc_with, demo_exit_without_change=rc_without,
                    demo_output_with_change=o_with.strip()[-300:])
        print('%s: tests %s %s; demo with=%d without=%d' % (sid, 'PASS' if ok else 'FAIL', tl, rc_with, rc_without))
        if not (ok and rc_with != 0 and rc_without == 0):
            print('   NOT KEPT (does not satisfy: tests pass, demo fails with change, demo passes without)')
            print('   ', o_with.strip()[-300:].replace('\n', ' | '))
            return 1
        os.makedirs(dst, exist_ok=True)
        # store the patch re-based on the current tree
        rc, diff = sh('git diff -- hl7apy', cwd=d)
        open(os.path.join(dst, 'patch.diff'), 'w').write(diff)
        shutil.copy(demo, os.path.join(dst, 'demo.py'))
        notes = os.path.join(src, 'notes.md')
        if os.path.exists(notes):
            shutil.copy(notes, os.path.join(dst, 'notes.md'))
            meta['needs_to_manifest'] = open(notes).read()[:1500]
        meta['verified_with'] = ('tools/seeded.py import: applied to a scratch copy of /repo@%s, pinned test-suite run there (MLLP tests on a '
                                 'free port), demo.py run with and without the change' % sh('git rev-parse --short HEAD', cwd=REPO)[1].strip())
        json.dump(meta, open(os.path.join(dst, 'meta.json'), 'w'), indent=1)
        return 0
    finally:
        shutil.rmtree(d, ignore_errors=True)


def cmd_run(ids, tier, checks):
    base = os.path.join(VERIF, 'seeded')
    ids = ids or sorted(os.listdir(base))
    for sid in ids:
        sd = os.path.join(base, sid)
        meta = json.load(open(os.path.join(sd, 'meta.json')))
        if meta.get('status') == 'retired':
            print('%-14s retired: %s' % (sid, meta.get('retired_because', '')[:120]))
            continue
        d, err = scratch(os.path.join(sd, 'patch.diff'))
        if d is None:
            print('%s: patch no longer applies: %s' % (sid, err[:200]))
            continue
        try:
            res = meta.setdefault('detection', {})
            for c in (checks or [meta['property']]):
                t0 = time.time()
                rc, out = sh('./check %s --tier %s' % (c, tier), cwd=VERIF, env=dict(ENV, VERIF_REPO=d), timeout=3600)
                sigs = re.findall(r'signature: (\S+)', out)
                res['%s:%s' % (c, tier)] = {'exit': rc, 'signatures': sigs[:6], 'wall_s': round(time.time() - t0, 1)}
                print('%-14s %s %-8s exit=%d %s' % (sid, c, tier, rc, sigs[:3] if rc == 1 else ('MISSED' if rc == 0 else out[-300:])))
            json.dump(meta, open(os.path.join(sd, 'meta.json'), 'w'), indent=1)
        finally:
            shutil.rmtree(d, ignore_errors=True)
            sh('rm -f replays/*/v-*.json', cwd=VERIF)


if __name__ == '__main__':
    a = sys.argv[1:]
    if a and a[0] == 'import':
        sys.exit(cmd_import(a[1], a[2], a[3]))
    if a and a[0] == 'run':
        tier, checks, ids = 'quick', None, []
        it = iter(a[1:])
        for x in it:
            if x == '--tier':
                tier = next(it)
            elif x == '--checks':
                checks = next(it).split(',')
            else:
                ids.append(x)
        cmd_run(ids, tier, checks)
