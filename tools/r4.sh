#!/bin/bash
# import round-4 seeded changes of a property (ids <P>-7, <P>-8) and run the owning check against them
p=$1
for n in 1 2; do [ -d /tmp/wt6/$p/_out/$n ] && tools/seeded.py import /tmp/wt6/$p/_out/$n $p-$((n+6)) $p 2>&1 | grep -v conda; done
tools/seeded.py run $p-7 $p-8 2>&1 | grep -v conda | cut -c1-220
