#!/bin/bash
# import round-6 seeded changes of a property (ids <P>-11, <P>-12) and run the owning check against them
p=$1
for n in 1 2; do [ -d /tmp/wt8/$p/_out/$n ] && tools/seeded.py import /tmp/wt8/$p/_out/$n $p-$((n+10)) $p 2>&1 | grep -v conda; done
tools/seeded.py run $p-11 $p-12 2>&1 | grep -v conda | cut -c1-220
