"""./check <ID> [--tier quick|thorough] [--replay FILE]"""
import os
import sys
import json
import time
import argparse
import importlib
import traceback

from hv import common
from hv.common import Acc, VERIF_DIR, h


def _load(prop):
    return importlib.import_module('hv.props.' + prop.lower())


def write_evidence(mod, tier, seed, acc, wall, nviol, extra_cov=None):
    cov = {
        'evaluations': int(acc.evaluations),
        'distinct_nontrivial': int(len(acc.nontrivial) + acc.nontrivial_enum),
        'rule': mod.RULE,
        'samples': acc.samples[:12],
        'exhaustive': bool(getattr(mod, 'EXHAUSTIVE', {}).get(tier, False)),
        'classes': dict(sorted(acc.classes.items(), key=lambda kv: str(kv[0]))),
        'excluded_by_construction': dict(acc.excluded),
        'known_findings_hit': dict(acc.known_hits),
        'inconclusive_shards': int(acc.inconclusive),
        'counters': dict(sorted(acc.extra.items(), key=lambda kv: str(kv[0]))),
        'repo': common.REPO,
    }
    if extra_cov:
        cov.update(extra_cov)
    ev = {
        'property_id': mod.ID, 'tier': tier, 'seed': seed, 'level': mod.LEVEL,
        'coverage': cov, 'assumptions': list(getattr(mod, 'ASSUMPTIONS', [])),
        'wall_s': round(wall, 2), 'violations': int(nviol),
    }
    d = os.path.join(VERIF_DIR, 'evidence')
    os.makedirs(d, exist_ok=True)
    tmp = os.path.join(d, mod.ID + '.json.tmp')
    with open(tmp, 'w') as f:
        json.dump(ev, f, indent=1, default=str, sort_keys=False)
        f.write('\n')
    os.replace(tmp, os.path.join(d, mod.ID + '.json'))


def report(mod, acc):
    """Print KNOWN-FINDING / VIOLATION lines, write replay files. Returns number of violations."""
    by_id = {e['id']: e for e in common.known_findings()}
    for fid in sorted(acc.known_hits):
        print('KNOWN-FINDING: property=%s %s [%s, re-observed %d times]' % (
            mod.ID, by_id[fid]['what_fails'], fid, acc.known_hits[fid]))
    n = 0
    for sig in sorted(acc.violations):
        v = acc.violations[sig]
        rec = v['cases'][0]
        d = os.path.join(VERIF_DIR, 'replays', mod.ID)
        os.makedirs(d, exist_ok=True)
        path = os.path.join(d, 'v-%s.json' % h(sig))
        with open(path, 'w') as f:
            json.dump({'property': mod.ID, 'sig': sig, 'case': rec['case'], 'detail': rec['detail'],
                       'count_in_run': v['count']}, f, indent=1, default=str)
            f.write('\n')
        print('VIOLATION property=%s replay=%s' % (mod.ID, os.path.relpath(path, VERIF_DIR)))
        print('  signature: %s   (seen %d times in this run)' % (sig, v['count']))
        print('  case: %s' % common.short(json.dumps(rec['case'], default=str), 600))
        print('  detail: %s' % common.short(rec['detail'], 800))
        n += 1
    return n


def main(argv=None):
    ap = argparse.ArgumentParser()
    ap.add_argument('prop')
    ap.add_argument('--tier', default=os.environ.get('VERIF_TIER') or 'quick', choices=['quick', 'thorough'])
    ap.add_argument('--replay')
    ap.add_argument('--procs', type=int)
    a = ap.parse_args(argv)
    try:
        seed = int(os.environ.get('VERIF_SEED', '1') or '1')
    except ValueError:
        seed = 1
    t0 = time.time()
    try:
        common.import_repo()
        mod = _load(a.prop)
        if a.replay:
            with open(a.replay) as f:
                rec = json.load(f)
            acc = Acc(mod.ID)
            for sig, detail in mod.replay(rec['case'], acc):
                acc.violation(sig, rec['case'], detail)
            n = report(mod, acc)
            if not n:
                print('replay: no violation reproduced for %s' % a.replay)
            return 1 if n else 0
        acc = Acc(mod.ID)
        # committed regression corpus first
        rdir = os.path.join(VERIF_DIR, 'replays', mod.ID)
        if os.path.isdir(rdir):
            for fn in sorted(os.listdir(rdir)):
                if fn.startswith('r-') and fn.endswith('.json'):
                    with open(os.path.join(rdir, fn)) as f:
                        rec = json.load(f)
                    for sig, detail in mod.replay(rec['case'], acc):
                        acc.violation(sig, rec['case'], detail)
                    acc.extra['regression_corpus_replayed'] += 1
        shards = mod.plan(a.tier, seed)
        errors = common.run_shards(mod.__name__, shards, acc, a.procs)
        if errors:
            print('HARNESS-ERROR: %d shard(s) failed; first:\n%s' % (len(errors), errors[0]), file=sys.stderr)
            return 2
        extra = mod.finish(acc, a.tier, seed) if hasattr(mod, 'finish') else None
        n = report(mod, acc)
        write_evidence(mod, a.tier, seed, acc, time.time() - t0, n, extra)
        print('%s tier=%s seed=%d: %d evaluations, %d distinct non-trivial, %d violation signature(s), %.1fs' % (
            mod.ID, a.tier, seed, acc.evaluations, len(acc.nontrivial) + acc.nontrivial_enum, n, time.time() - t0))
        return 1 if n else 0
    except SystemExit:
        raise
    except BaseException:
        print('HARNESS-ERROR:\n' + traceback.format_exc(), file=sys.stderr)
        return 2


if __name__ == '__main__':
    sys.exit(main())
