"""A small forest of elements driven by JSON operations - shared by C10 (tree invariants after every step)
and C12 (a rejected operation leaves its target unchanged).

World: three messages of one structure (TOLERANT / STRICT of version v, TOLERANT of version v2) plus a pool of
free elements created by the operations.  Every operation addresses elements by (root index, child-index path)
resolved modulo the current sizes, so any operation list is executable in any state and shrinks well.
"""
from hypothesis import strategies as st

from hv import tables as T
from hv import lit

TOL, STRICT = 2, 1


def _exc(e):
    return '%s: %s' % (type(e).__name__, str(e)[:140])


class Applied(object):
    def __init__(self, kind, target=None, objects=(), raised=None, note=''):
        self.kind, self.target, self.objects, self.raised, self.note = kind, target, list(objects), raised, note


class Forest(object):
    def __init__(self, cell):
        from hl7apy import core
        self.core = core
        self.v, self.v2, self.m = cell['v'], cell['v2'], cell['m']
        self.msgs = []
        for (ver, lvl) in ((self.v, TOL), (self.v, STRICT), (self.v2, TOL)):
            m = core.Message(self.m, version=ver, validation_level=lvl)
            m.msh.msh_7 = '20200101'
            m.msh.msh_9 = 'ADT^A01' if T.msh9_components(ver) < 3 else '^'.join((self.m.split('_') + [self.m])[:3])
            m.msh.msh_10 = '1'
            m.msh.msh_11 = 'P'
            self.msgs.append(m)
        self.free = []
        self.all = list(self.msgs)      # every element the harness ever held a reference to (roots for the walks)

    # ---- addressing
    def roots(self):
        return self.msgs + self.free

    def resolve(self, ref, want_parent_capable=False):
        roots = self.roots()
        el = roots[ref['r'] % len(roots)]
        for k in ref.get('p', []):
            if type(el).__name__ == 'SubComponent':
                break
            kids = el.children.list
            if not kids:
                break
            el = kids[k % len(kids)]
        if want_parent_capable and type(el).__name__ == 'SubComponent' and el.parent is not None:
            el = el.parent
        return el

    def child_names(self, el):
        """names the structure of `el` allows (table order), as the element itself reports them"""
        oc = getattr(el, 'ordered_children', None)
        cls = type(el).__name__
        if cls == 'Segment' and getattr(el, 'allow_infinite_children', False):
            # open-ended segments (Z-segments, or a last field of varying type) also take positions beyond the table
            last = len(oc or ())
            return list(oc or ()) + ['%s_%d' % (el.name, last + i) for i in (1, 2, 4, 7)]
        if oc:
            if cls in ('Message', 'Group'):
                # a Z-segment is accepted by every message and group
                return [n for n in oc if n not in T.PSEUDO_SEGMENTS] + ['ZXX']
            return list(oc)
        if cls in ('Field', 'Component') and el.datatype and T.is_base(el.version, el.datatype):
            return [el.datatype]
        return []

    def root_of(self, el):
        seen = 0
        while el.parent is not None and seen < 50:
            el, seen = el.parent, seen + 1
        return el

    # ---- vocabulary for free elements
    def vocab(self, cls, ver):
        if cls == 'Segment':
            names = [n for n in self.child_names(self.msgs[0]) if n in T.lib(ver).SEGMENTS and not T.segment_defect(ver, n)][:6]
            return names + ['ZXX']
        if cls == 'Field':
            out = []
            for s in self.vocab('Segment', ver)[:3]:
                if s != 'ZXX':
                    out += [r[0] for r in T.seg_fields(ver, s)[:5]]
            return out + ['ZXX_1']
        if cls == 'Component':
            out = []
            for f in self.vocab('Field', ver)[:12]:
                ref = T.lib(ver).FIELDS.get(f)
                if ref is not None and T.ref_children(ver, ref):
                    out += [c[0] for c in T.ref_children(ver, ref)[:3]]
            return out or ['CX_1']
        out = []
        for c in self.vocab('Component', ver)[:12]:
            ref = T.lib(ver).DATATYPES.get(c)
            if ref is not None and T.ref_children(ver, ref):
                out += [x[0] for x in T.ref_children(ver, ref)[:2]]
        return out or ['HD_1']

    def make_free(self, cls, name_k, lvl, ver_k, val_k):
        ver = self.v if ver_k == 0 else self.v2
        names = self.vocab(cls, ver)
        name = names[name_k % len(names)]
        C = getattr(self.core, cls)
        el = C(name, version=ver, validation_level=lvl)
        if val_k is not None and cls != 'Segment':
            try:
                dt = el.datatype if T.is_base(ver, el.datatype) else 'ST'
                el.value = lit.valid(dt, val_k)
            except Exception:
                pass
        return el

    # ---- the interpreter
    def apply(self, op):
        k = op['op']
        core = self.core
        try:
            if k == 'new':
                try:
                    el = self.make_free(op['cls'], op['name_k'], op['lvl'], op['ver_k'], op.get('val_k'))
                except Exception as e:      # the harness vocabulary does not fit this version: no element, no operation
                    return Applied('skipped', note='new: ' + _exc(e))
                self.free.append(el)
                self.all.append(el)
                return Applied(k, el)
            if k in ('add', 'assign', 'assign_idx', 'list_insert'):
                parent = self.resolve(op['parent'], True)
                if not self.free:
                    return Applied('skipped')
                child = self.free[op['child'] % len(self.free)]
                if child is parent or self._is_ancestor(child, parent):
                    return Applied('skipped')
                already = child.parent is not None
                a = Applied(k + (':reattach' if already else ''), parent, [child])
                try:
                    if k == 'add':
                        parent.add(child)
                    elif k == 'list_insert':
                        # the child list's own insert(position, child)
                        parent.children.insert(op['i'], child)
                    elif k == 'assign':
                        setattr(parent, child.name or 'X', child)
                    else:
                        getattr(parent, child.name or 'X')[op['i']] = child
                except Exception as e:
                    a.raised = e
                return a
            if k == 'ctor':
                # a child constructed with parent=...: the constructor attaches it (or refuses: wrong datatype, unknown
                # datatype, value too long, other level ...)
                parent = self.resolve(op['parent'], True)
                cls = type(parent).__name__
                if cls == 'SubComponent':
                    return Applied('skipped')
                child_cls = {'Message': 'Segment', 'Group': 'Segment', 'Segment': 'Field', 'Field': 'Component', 'Component': 'SubComponent'}[cls]
                names = [n for n in self.child_names(parent) if n not in T.lib(parent.version).GROUPS]
                name = names[op['k'] % len(names)] if (names and op['named']) else None
                lvl = parent.validation_level if op['mismatch'] == 0 else 3 - parent.validation_level
                kw = {'parent': parent, 'version': parent.version, 'validation_level': lvl}
                dt = [None, None, 'ST', 'NM', 'CX', 'QQ', 'varies', 'SI'][op['dt'] % 8]
                if child_cls != 'Segment' and dt is not None:
                    kw['datatype'] = dt
                if child_cls == 'SubComponent' and op['val'] is not None:
                    kw['value'] = ['a', 'x' * 300, '12', 'a&b'][op['val'] % 4]
                if child_cls == 'Segment' and name is None:
                    return Applied('skipped')
                a = Applied('ctor:%s' % child_cls, parent)
                before = len(parent.children.list)
                try:
                    new = getattr(core, child_cls)(name, **kw) if name is not None else getattr(core, child_cls)(**kw)
                    self.all.append(new)
                except Exception as e:
                    a.raised = e
                return a
            if k == 'set_parent':
                # the parent attribute assigned directly: child.parent = other element / None
                child = self.resolve(op['child'])
                if child in self.msgs:
                    return Applied('skipped')
                parent = None if op.get('none') else self.resolve(op['parent'], True)
                if parent is child or (parent is not None and self._is_ancestor(child, parent)):
                    return Applied('skipped')
                a = Applied('set_parent' + (':none' if parent is None else ''), parent if parent is not None else child.parent, [child] if parent is not None else [])
                try:
                    child.parent = parent
                except Exception as e:
                    a.raised = e
                return a
            if k == 'list_setitem':
                # children[i] = text / element: item assignment on the child list itself
                parent = self.resolve(op['parent'], True)
                kids = parent.children
                if not len(kids) or type(parent).__name__ == 'SubComponent':
                    return Applied('skipped')
                i = op['i'] % len(kids)
                old = kids[i]
                cls = type(old).__name__
                a = Applied('list_setitem:%s' % op['what'], parent)
                try:
                    if op['what'] == 'text' and cls != 'Group':
                        kids[i] = ('%s|t%d' % (old.name, op['i'])) if cls == 'Segment' else 't%d' % op['i']
                    else:
                        new = getattr(core, cls)(old.name, version=parent.version, validation_level=parent.validation_level)
                        self.all.append(new)
                        a.objects = [new]
                        kids[i] = new
                except Exception as e:
                    a.raised = e
                return a
            if k == 'assign_existing':
                # an element that is attached somewhere (possibly to this very parent) assigned by name or by index
                parent = self.resolve(op['parent'], True)
                child = self.resolve(op['child'])
                if child.parent is None or child is parent or self._is_ancestor(child, parent) or child in self.msgs or not child.name:
                    return Applied('skipped')
                a = Applied('assign_existing:%s:reattach' % op['how'], parent, [child])
                try:
                    if op['how'] == 'name':
                        setattr(parent, child.name, child)
                    else:
                        getattr(parent, child.name)[op['i']] = child
                except Exception as e:
                    a.raised = e
                return a
            if k == 'reattach':
                parent = self.resolve(op['parent'], True)
                child = self.resolve(op['child'])
                if child.parent is None or child is parent or self._is_ancestor(child, parent) or child in self.msgs:
                    return Applied('skipped')
                a = Applied('add:reattach', parent, [child])
                try:
                    parent.add(child)
                except Exception as e:
                    a.raised = e
                return a
            if k == 'add_x':
                parent = self.resolve(op['parent'], True)
                cls = type(parent).__name__
                names = self.child_names(parent)
                if op.get('foreign'):
                    other = self.vocab({'Message': 'Field', 'Group': 'Field', 'Segment': 'Component', 'Field': 'SubComponent',
                                        'Component': 'Field'}[cls], parent.version)
                    name = other[op['k'] % len(other)]
                elif names:
                    name = names[op['k'] % len(names)]
                else:
                    return Applied('skipped')
                a = Applied('add_x' + (':foreign' if op.get('foreign') else ''), parent)
                new = None
                try:
                    if cls in ('Message', 'Group'):
                        is_group = name in T.lib(parent.version).GROUPS
                        new = (parent.add_group if is_group else parent.add_segment)(name)
                        if is_group:
                            new = None
                    elif cls == 'Segment':
                        new = parent.add_field(name)
                    elif cls == 'Field':
                        new = parent.add_component(name)
                    else:
                        new = parent.add_subcomponent(name)
                except Exception as e:
                    a.raised = e
                if new is not None and parent.validation_level == TOL:
                    # give the new child a content of its own (TOLERANT accepts any text), so that a later mix-up of
                    # same-named siblings is visible in the encoding
                    self.counter = getattr(self, 'counter', 0) + 1
                    try:
                        new.value = ('%s|n%d' % (new.name, self.counter)) if type(new).__name__ == 'Segment' else 'n%d' % self.counter
                    except Exception:
                        pass
                return a
            if k == 'assign_copy':
                # a fresh element with the name of one of the parent's children, with the same or another level / version,
                # assigned by name, by index or added: refused when it does not match the tree
                parent = self.resolve(op['parent'], True)
                cls = type(parent).__name__
                names = self.child_names(parent)
                if not names or cls == 'SubComponent':
                    return Applied('skipped')
                name = names[op['k'] % len(names)]
                child_cls = {'Message': 'Segment', 'Group': 'Segment', 'Segment': 'Field', 'Field': 'Component',
                             'Component': 'SubComponent'}[cls]
                if child_cls == 'Segment' and name in T.lib(parent.version).GROUPS:
                    return Applied('skipped')
                lvl = parent.validation_level if op['mismatch'] in (0, 2) else 3 - parent.validation_level
                ver = parent.version if op['mismatch'] in (0, 1) else (self.v2 if parent.version == self.v else self.v)
                try:
                    C = getattr(core, child_cls)
                    child = C(name, version=ver, validation_level=lvl)
                    if child_cls != 'Segment':
                        child.value = lit.valid(child.datatype if T.is_base(ver, child.datatype) else 'ST', op['k'])
                except Exception as e:
                    return Applied('skipped', note='assign_copy: ' + _exc(e))
                self.all.append(child)
                a = Applied('assign_copy:%s:%s' % (op['how'], ['match', 'level', 'version'][op['mismatch']]), parent, [child])
                try:
                    if op['how'] == 'name':
                        setattr(parent, name, child)
                    elif op['how'] == 'index':
                        getattr(parent, name)[op['i']] = child
                    else:
                        parent.add(child)
                except Exception as e:
                    a.raised = e
                return a
            if k == 'tassign':
                # attribute assignment (not .value=) at the end of a traversal chain: a refused one must not materialise the chain
                el = self.resolve(op['start'], True)
                a = Applied('tassign', el)
                try:
                    cur = el
                    names = []
                    for step in op['chain']:
                        base = cur[0] if isinstance(cur, core.ElementProxy) and len(cur) else cur
                        names = self.child_names(base) if not isinstance(base, core.ElementProxy) else self._names_of_absent(cur)
                        if not names:
                            break
                        name = names[step % len(names)]
                        if step is op['chain'][-1] or not names:
                            break
                        cur = getattr(cur, name)
                    if not names:
                        return Applied('skipped')
                    name = names[op['chain'][-1] % len(names)]
                    if op['what'] == 'element' and self.free:
                        obj = self.free[op['child'] % len(self.free)]
                        if obj is el or self._is_ancestor(obj, el) or obj.parent is not None:
                            return Applied('skipped')
                        a.objects = [obj]
                        name = obj.name or name
                    else:
                        obj = ['a', 'x' * 300, 'a^b^c~d', 'QQQ|1'][op['child'] % 4]
                    setattr(cur, name, obj)
                except Exception as e:
                    a.raised = e
                return a
            if k == 'assign_dt':
                parent = self.resolve(op['parent'], True)
                names = self.child_names(parent)
                if not names or type(parent).__name__ in ('Message', 'Group', 'SubComponent'):
                    return Applied('skipped')
                name = names[op['k'] % len(names)]
                cls = T.lib(parent.version).BASE_DATATYPES.get('ST')
                a = Applied('assign_dt', parent)
                try:
                    setattr(parent, name, cls(['d1', 'd2', 'x' * 300][op['val_k'] % 3]))
                except Exception as e:
                    a.raised = e
                return a
            if k == 'assign_text':
                parent = self.resolve(op['parent'], True)
                cls = type(parent).__name__
                names = self.child_names(parent)
                if not names:
                    return Applied('skipped')
                name = names[op['k'] % len(names)]
                if cls in ('Message', 'Group'):
                    if name in T.lib(parent.version).GROUPS:
                        return Applied('skipped')
                    text = '%s|%d' % (name, op['val_k'] + 1)
                else:
                    text = ['a', 'b', 'c', 'x' * 250][op['val_k'] % 4]
                a = Applied('assign_text' + (':idx' if op.get('i') is not None else ''), parent)
                try:
                    if op.get('i') is None:
                        setattr(parent, name.lower() if op['k'] % 2 else name, text)
                    else:
                        getattr(parent, name)[op['i']] = text
                except Exception as e:
                    a.raised = e
                return a
            if k in ('read', 'twrite'):
                el = self.resolve(op['start'], True)
                a = Applied(k, el)
                try:
                    cur = el
                    for step in op['chain']:
                        base = cur[0] if isinstance(cur, core.ElementProxy) and len(cur) else cur
                        probe = base if not isinstance(base, core.ElementProxy) else None
                        names = self.child_names(probe) if probe is not None else []
                        if probe is None:
                            # proxy of a not-yet-existing child: ask a throw-away element of the same name for its children
                            names = self._names_of_absent(cur)
                        if not names:
                            break
                        name = names[step % len(names)]
                        if k == 'twrite' and step is op['chain'][-1]:
                            pass
                        nxt = getattr(cur, name.lower() if step % 2 else name)
                        len(nxt), list(nxt), repr(nxt)
                        cur = nxt
                    if k == 'twrite' and isinstance(cur, core.ElementProxy):
                        cur.value = lit.valid('ST', op.get('val_k', 0)) if not op.get('bad') else 'x' * 300
                    a.note = repr(cur)[:60]
                except Exception as e:
                    a.raised = e
                return a
            if k in ('del_name', 'del_idx'):
                parent = self.resolve(op['parent'], True)
                names = self.child_names(parent)
                if not names:
                    return Applied('skipped')
                name = names[op['k'] % len(names)]
                a = Applied(k, parent)
                try:
                    if k == 'del_name':
                        delattr(parent, name)
                    else:
                        del getattr(parent, name)[op['i']]
                except Exception as e:
                    a.raised = e
                return a
            if k in ('remove', 'pop', 'del_child'):
                parent = self.resolve(op['parent'], True)
                a = Applied(k, parent)
                try:
                    kids = parent.children
                    if k == 'remove':
                        if not len(kids):
                            return Applied('skipped')
                        kids.remove(kids[op['i'] % len(kids)])
                    elif k == 'pop':
                        kids.pop(op['i'])
                    else:
                        del kids[op['i']]
                except Exception as e:
                    a.raised = e
                return a
            if k == 'set_children':
                parent = self.resolve(op['parent'], True)
                cls = type(parent).__name__
                names = self.child_names(parent)
                if not names or cls in ('Message',):
                    return Applied('skipped')
                child_cls = {'Group': 'Segment', 'Segment': 'Field', 'Field': 'Component', 'Component': 'SubComponent'}[cls]
                C = getattr(core, child_cls)
                new = []
                try:
                    for j in range(op['n']):
                        nm = names[(op['k'] + j) % len(names)]
                        if child_cls == 'Segment' and nm in T.lib(parent.version).GROUPS:
                            continue
                        new.append(C(nm, version=parent.version, validation_level=parent.validation_level))
                    if op.get('bad') == 3:
                        # an item that is no element at all: text, nothing, a number
                        new.append(['a^b', None, 7, 'PID|1'][op['k'] % 4])
                    elif op.get('bad'):
                        other = self.vocab(child_cls, parent.version)
                        lvl = parent.validation_level if op['bad'] == 1 else (3 - parent.validation_level)
                        new.append(C(other[op['k'] % len(other)], version=parent.version, validation_level=lvl))
                except Exception:
                    return Applied('skipped')
                self.all.extend(x for x in new if hasattr(x, 'children'))
                tag = ''
                if op.get('own') and len(parent.children.list):
                    # one of the element's own children is part of the new list
                    new.insert(0, parent.children.list[op['own'] % len(parent.children.list)])
                    tag += ':own'
                for at, ref in enumerate(op.get('steal2', ())):
                    other = self.resolve(ref)
                    if other.parent is not None and other.parent is not parent and type(other).__name__ == child_cls and \
                            not self._is_ancestor(other, parent) and other not in self.msgs and not any(x is other for x in new):
                        new.insert(min(at, len(new)), other)
                        tag = tag.replace(':taken-two', '').replace(':taken', '') + (':taken-two' if ':taken' in tag else ':taken')
                if op.get('steal') is not None:
                    # so is a child that sits in another element (of the same kind of parent, so that it may fit)
                    other = self.resolve(op['steal'])
                    if other.parent is not None and other.parent is not parent and type(other).__name__ == child_cls and \
                            not self._is_ancestor(other, parent) and other not in self.msgs:
                        new.insert(0, other)
                        tag += ':taken'
                a = Applied('set_children' + tag + ((':not-an-element' if op.get('bad') == 3 else ':bad') if op.get('bad') else ''), parent, [x for x in new if hasattr(x, 'parent') and x.parent is not parent])
                try:
                    if op.get('alias') and tag == '' and not op.get('bad'):
                        # the child list object of another element handed over as it is
                        donor = self.resolve(op['alias'], True)
                        if donor is parent or type(donor).__name__ != cls or self._is_ancestor(donor, parent) or self._is_ancestor(parent, donor):
                            return Applied('skipped')
                        a = Applied('set_children:list-of-another-element', parent)
                        parent.children = donor.children
                    else:
                        parent.children = new
                except Exception as e:
                    a.raised = e
                return a
            if k == 'value':
                el = self.resolve(op['target'])
                cls = type(el).__name__
                if cls in ('Message', 'Group'):
                    return Applied('skipped')
                texts = {'Segment': ['%s|1|2' % el.name, '%s|1~2|3^4&5' % el.name, 'QQQ|1', '%s|%s' % (el.name, 'x' * 250)],
                         'Field': ['a', 'a^b', 'a^b&c', 'a~b', 'x' * 250, '20201301'],
                         'Component': ['a', 'a&b', 'a^b', 'x' * 250],
                         'SubComponent': ['a', '12', '2020', 'x' * 250, 'notadate', '1.5']}[cls]
                a = Applied('value', el)
                if op['k'] % 5 == 4 and cls in ('Field', 'Component'):
                    # a base datatype object (of the leaf's class, or of another one: refused) given through .value
                    a = Applied('value:datatype-object', el)
                    try:
                        bdt = T.lib(el.version).BASE_DATATYPES
                        obj = [bdt['ST']('obj'), bdt['NM'](7), bdt['SI'](3), bdt['ID']('A')][(op['k'] // 5) % 4]
                        el.value = obj
                    except Exception as e:
                        a.raised = e
                    return a
                try:
                    el.value = texts[op['k'] % len(texts)]
                except Exception as e:
                    a.raised = e
                return a
            if k == 'datatype':
                el = self.resolve(op['target'])
                if type(el).__name__ not in ('Field', 'Component', 'SubComponent'):
                    return Applied('skipped')
                dts = ['ST', 'CX', 'NM', 'XPN', 'HD', 'ID', 'CE', 'DT']
                a = Applied('datatype', el)
                try:
                    el.datatype = dts[op['k'] % len(dts)]
                except Exception as e:
                    a.raised = e
                return a
            if k == 'msg_value':
                m = self.msgs[op['r'] % 3]
                ver = [self.v, self.v, self.v2][(op['r'] + op['k']) % 3] if op['k'] % 2 else m.version
                name = self.m if op['k'] % 3 else 'ACK'
                sep = '|' if op['k'] % 5 else '!'
                text = 'MSH%s^~\\&%sA%sB%sC%sD%s20200101%s%s%s%s%s1%sP%s%s\rEVN%sA01\rPID%s1\rPID%s2' % (
                    sep, sep, sep, sep, sep, sep, sep, sep, '^'.join((name.split('_') + [name])[:3]) if '_' in name else name, sep, sep, sep,
                    sep, ver, sep, sep, sep)
                a = Applied('msg_value', m)
                try:
                    m.value = text
                except Exception as e:
                    a.raised = e
                return a
            raise ValueError('unknown op %r' % (op,))
        except (ValueError, KeyError, IndexError, TypeError, AttributeError) as e:
            # an operation the harness could not even set up (not a call into the library under test semantics)
            return Applied('skipped', note='harness: ' + _exc(e))

    def _is_ancestor(self, a, b):
        """a is an ancestor of b"""
        n = 0
        while b is not None and n < 50:
            if b is a:
                return True
            b, n = b.parent, n + 1
        return False

    def _names_of_absent(self, proxy):
        try:
            owner = proxy.element_list.element
            ref = owner.find_child_reference(proxy.element_name)
            if ref is None:
                return []
            r = ref['ref']
            if r and r[0] in ('sequence', 'choice') and len(r) > 1 and r[1]:
                return [c[0] for c in r[1] if c[0] not in T.PSEUDO_SEGMENTS]
        except Exception:
            pass
        return []


# ---------------------------------------------------------------------------------------------
# invariants (C10) and snapshots (C12)

def listing(el, depth=0):
    out = []
    if type(el).__name__ == 'SubComponent' or depth > 8:
        return out
    for c in el.children.list:
        out.append((type(c).__name__, c.name))
        out.append(listing(c, depth + 1))
    return out


def snapshot(el):
    try:
        enc = el.to_er7()
    except Exception as e:
        enc = 'to_er7 raises ' + type(e).__name__
    try:
        enc_t = el.to_er7(trailing_children=True)
    except Exception as e:
        enc_t = 'to_er7 raises ' + type(e).__name__
    return (enc, listing(el), enc_t)


def check_tree(e, owner, path='root', depth=0):
    """-> list of (sig, detail); owner: dict id(child) -> (owner element, path)"""
    out = []
    cls = type(e).__name__
    if cls == 'SubComponent' or depth > 8:
        return out
    ch = e.children
    L = list(ch.list)
    if not (len(ch) == len(L) == len(list(iter(ch)))):
        out.append(('C10-len-iter-disagree', '%s: len %d, list %d' % (path, len(ch), len(L))))
    ids = [id(c) for c in L]
    if len(set(ids)) != len(ids):
        out.append(('C10-child-listed-twice-by-one-parent', '%s %r lists %r' % (path, e, L)))
    for i, c in enumerate(L):
        if c.parent is not e:
            out.append(('C10-listed-child-has-another-parent', '%s: %r lists %r whose parent is %r' % (path, e, c, c.parent)))
        if id(c) in owner and owner[id(c)][0] is not e:
            out.append(('C10-child-listed-by-two-parents', '%r is listed by %r (%s) and by %r (%s)' % (
                c, owner[id(c)][0], owner[id(c)][1], e, path)))
        owner[id(c)] = (e, path)
        try:
            if c not in ch:
                out.append(('C10-containment-disagrees', '%s: %r not in children' % (path, c)))
            if ch[i] is not c:
                out.append(('C10-positional-lookup-disagrees', '%s: children[%d]' % (path, i)))
        except Exception as ex:
            out.append(('C10-lookup-raises:%s' % type(ex).__name__, '%s: %s' % (path, ex)))
        if c.version != e.version:
            out.append(('C10-mixed-versions-in-one-tree', '%s: %r is %s inside %r %s' % (path, c, c.version, e, e.version)))
        if c.validation_level != e.validation_level:
            out.append(('C10-mixed-validation-levels-in-one-tree', '%s: %r level %s inside %r level %s' % (
                path, c, c.validation_level, e, e.validation_level)))
    by = {}
    for c in L:
        by.setdefault(c.name, []).append(c)
    idx = dict((k, v) for k, v in ch.indexes.items() if v)
    if set(idx) != set(by):
        out.append(('C10-name-index-disagrees-with-list', '%s: index names %r, list names %r' % (path, sorted(map(str, idx)), sorted(map(str, by)))))
    else:
        for k in by:
            if [id(x) for x in idx[k]] != [id(x) for x in by[k]]:
                out.append(('C10-name-index-order-disagrees-with-list', '%s: %s' % (path, k)))
            if k is None:
                continue
            try:
                p = ch.get(k)
                if p is None or len(p) != len(by[k]) or [id(x) for x in p] != [id(x) for x in by[k]] or \
                        any(p[i] is not x for i, x in enumerate(by[k])):
                    out.append(('C10-lookup-by-name-disagrees-with-list', '%s: %s' % (path, k)))
            except Exception as ex:
                out.append(('C10-lookup-raises:%s' % type(ex).__name__, '%s.%s: %s' % (path, k, ex)))
    for k, v in ch.traversal_indexes.items():
        for t in v:
            if t.traversal_parent is not e or any(t is c for c in L):
                out.append(('C10-traversal-index-inconsistent', '%s: %r' % (path, t)))
    # the result of a lookup by name: its length, its iteration and its positional lookup agree (one position past the end
    # is an IndexError, also for a name that has only been navigated through)
    for k in list(by) + [k for k in ch.traversal_indexes if k not in by]:
        if k is None:
            continue
        try:
            p = ch.get(k)
            if p is None:
                continue
            n = len(p)
            real = len(by.get(k, ()))
            if n != real or len(list(p)) != n:
                out.append(('C10-lookup-by-name-length-disagrees', '%s: %s: len %d, iteration %d, listed %d' % (path, k, n, len(list(p)), real)))
            try:
                extra = p[n]
                out.append(('C10-lookup-by-name-indexes-past-its-length', '%s: %s: len %d but [%d] gives %r' % (path, k, n, n, extra)))
            except IndexError:
                pass
        except Exception as ex:
            out.append(('C10-lookup-raises:%s' % type(ex).__name__, '%s.%s: %s' % (path, k, ex)))
    for i, c in enumerate(L):
        out.extend(check_tree(c, owner, '%s/%s[%d]' % (path, c.name, i), depth + 1))
    return out


def check_forest(f):
    owner = {}
    out = []
    seen_roots = set()
    for el in f.all:
        r = f.root_of(el)
        if id(r) in seen_roots:
            continue
        seen_roots.add(id(r))
        out.extend(check_tree(r, owner, type(r).__name__ + ':' + str(r.name)))
        if out:
            break
    return out


# ---------------------------------------------------------------------------------------------
# operation strategies

REF = st.fixed_dictionaries({'r': st.integers(0, 8), 'p': st.lists(st.integers(0, 5), max_size=4)})
NEAR = st.fixed_dictionaries({'r': st.integers(0, 2), 'p': st.lists(st.integers(0, 1), max_size=1)})
SHALLOW = st.fixed_dictionaries({'r': st.integers(0, 8), 'p': st.lists(st.integers(0, 5), max_size=2)})


def op_strategy():
    k9 = st.integers(0, 9)
    return st.one_of(
        st.fixed_dictionaries({'op': st.just('new'), 'cls': st.sampled_from(['Segment', 'Field', 'Field', 'Component', 'SubComponent']),
                               'name_k': st.integers(0, 20), 'lvl': st.sampled_from([TOL, TOL, STRICT]), 'ver_k': st.sampled_from([0, 0, 0, 1]),
                               'val_k': st.one_of(st.none(), st.integers(0, 3))}),
        st.fixed_dictionaries({'op': st.just('add'), 'parent': SHALLOW, 'child': st.integers(0, 9)}),
        st.fixed_dictionaries({'op': st.just('assign'), 'parent': SHALLOW, 'child': st.integers(0, 9)}),
        st.fixed_dictionaries({'op': st.just('assign_idx'), 'parent': SHALLOW, 'child': st.integers(0, 9), 'i': st.integers(-1, 2)}),
        st.fixed_dictionaries({'op': st.just('reattach'), 'parent': SHALLOW, 'child': REF}),
        st.fixed_dictionaries({'op': st.just('ctor'), 'parent': NEAR, 'k': st.integers(0, 12), 'named': st.booleans(), 'dt': st.integers(0, 7),
                               'mismatch': st.sampled_from([0, 0, 0, 1]), 'val': st.one_of(st.none(), st.integers(0, 3))}),
        st.fixed_dictionaries({'op': st.just('set_parent'), 'child': REF, 'parent': SHALLOW, 'none': st.sampled_from([False, False, False, True])}),
        st.fixed_dictionaries({'op': st.just('list_insert'), 'parent': SHALLOW, 'child': st.integers(0, 9), 'i': st.integers(-1, 4)}),
        st.fixed_dictionaries({'op': st.just('list_setitem'), 'parent': NEAR, 'i': st.integers(0, 5), 'what': st.sampled_from(['text', 'element'])}),
        st.fixed_dictionaries({'op': st.just('assign_existing'), 'parent': NEAR, 'child': st.fixed_dictionaries({'r': st.integers(0, 2), 'p': st.lists(st.integers(0, 3), min_size=1, max_size=2)}),
                               'how': st.sampled_from(['name', 'index']), 'i': st.integers(-2, 2)}),
        st.fixed_dictionaries({'op': st.just('add_x'), 'parent': SHALLOW, 'k': st.integers(0, 30), 'foreign': st.sampled_from([False, False, False, True])}),
        st.fixed_dictionaries({'op': st.just('add_x'), 'parent': SHALLOW, 'k': st.integers(0, 30), 'foreign': st.just(False)}),
        st.fixed_dictionaries({'op': st.just('assign_text'), 'parent': NEAR, 'k': st.integers(0, 3), 'val_k': st.integers(0, 3),
                               'i': st.one_of(st.none(), st.integers(-1, 2))}),
        st.fixed_dictionaries({'op': st.just('assign_text'), 'parent': NEAR, 'k': st.integers(0, 3), 'val_k': st.integers(0, 3),
                               'i': st.one_of(st.none(), st.integers(-1, 2))}),
        st.fixed_dictionaries({'op': st.just('add_x_twice'), 'parent': NEAR, 'k': st.integers(0, 3)}),
        st.fixed_dictionaries({'op': st.just('assign_dt'), 'parent': SHALLOW, 'k': st.integers(0, 12), 'val_k': st.integers(0, 2)}),
        st.fixed_dictionaries({'op': st.just('assign_copy'), 'parent': NEAR, 'k': st.integers(0, 3), 'i': st.integers(-1, 2),
                               'how': st.sampled_from(['name', 'index', 'index', 'add']), 'mismatch': st.sampled_from([0, 1, 1, 2])}),
        st.fixed_dictionaries({'op': st.just('assign_copy'), 'parent': NEAR, 'k': st.integers(0, 3), 'i': st.integers(-1, 2),
                               'how': st.sampled_from(['name', 'index', 'index', 'add']), 'mismatch': st.sampled_from([0, 1, 1, 2])}),
        st.fixed_dictionaries({'op': st.just('tassign'), 'start': NEAR, 'chain': st.lists(st.integers(0, 8), min_size=1, max_size=3),
                               'what': st.sampled_from(['element', 'text']), 'child': st.integers(0, 9)}),
        st.fixed_dictionaries({'op': st.just('add_x'), 'parent': NEAR, 'k': st.integers(0, 3), 'foreign': st.just(False)}),
        st.fixed_dictionaries({'op': st.just('read'), 'start': SHALLOW, 'chain': st.lists(st.integers(0, 12), min_size=1, max_size=4)}),
        st.fixed_dictionaries({'op': st.just('twrite'), 'start': SHALLOW, 'chain': st.lists(st.integers(0, 12), min_size=1, max_size=4),
                               'val_k': st.integers(0, 3), 'bad': st.sampled_from([False, False, True])}),
        st.fixed_dictionaries({'op': st.sampled_from(['del_name', 'del_idx']), 'parent': SHALLOW, 'k': st.integers(0, 30), 'i': st.integers(-1, 2)}),
        st.fixed_dictionaries({'op': st.sampled_from(['remove', 'pop', 'del_child']), 'parent': SHALLOW, 'i': st.integers(-1, 4)}),
        st.fixed_dictionaries({'op': st.just('set_children'), 'parent': SHALLOW, 'n': st.integers(0, 3), 'k': st.integers(0, 20),
                               'bad': st.sampled_from([0, 0, 1, 2, 3])}),
        st.fixed_dictionaries({'op': st.just('set_children'), 'parent': SHALLOW, 'n': st.integers(0, 2), 'k': st.integers(0, 20),
                               'bad': st.sampled_from([0, 1, 1, 2, 3]), 'own': st.integers(0, 3), 'steal': st.one_of(st.none(), REF),
                               'alias': st.one_of(st.none(), st.none(), SHALLOW)}),
        st.fixed_dictionaries({'op': st.just('value'), 'target': REF, 'k': k9}),
        st.fixed_dictionaries({'op': st.just('datatype'), 'target': REF, 'k': k9}),
        st.fixed_dictionaries({'op': st.just('msg_value'), 'r': st.integers(0, 2), 'k': st.integers(0, 30)}),
    )


def forest_cells():
    cells = []
    for i, v in enumerate(T.VERSIONS):
        v2 = T.VERSIONS[(i + 5) % len(T.VERSIONS)]
        for m in ('ADT_A01', 'ORU_R01', 'ADT_A08'):
            if m in T.lib(v).MESSAGES and m in T.lib(v2).MESSAGES:
                cells.append({'v': v, 'v2': v2, 'm': m})
    return cells


@st.composite
def histories(draw, cells, max_ops):
    cell = draw(st.sampled_from(cells))
    drawn = draw(st.lists(op_strategy(), min_size=1, max_size=max_ops))
    ops = []
    if draw(st.integers(0, 5)) == 0:
        # scenario seed: the same kind of child under two parents, then one parent's child assigned into the other parent's
        # occupied slot, and a child assigned over its own sibling
        K = draw(st.integers(0, 5))
        pa = draw(st.sampled_from([[0], [1]]))
        ops += [{'op': 'add_x', 'parent': {'r': 0, 'p': pa}, 'k': K, 'foreign': False},
                {'op': 'add_x', 'parent': {'r': 0, 'p': pa}, 'k': K, 'foreign': False},
                {'op': 'add_x', 'parent': {'r': 2 if draw(st.booleans()) else 0, 'p': pa}, 'k': K, 'foreign': False},
                {'op': 'assign_existing', 'parent': {'r': 0, 'p': pa}, 'child': {'r': draw(st.sampled_from([0, 2])), 'p': pa + [draw(st.integers(0, 9))]},
                 'how': draw(st.sampled_from(['name', 'index'])), 'i': draw(st.integers(0, 1))}]
    if draw(st.integers(0, 3)) == 0:
        # scenario seed: two (or three) same-named siblings with different content, then a replacement of one that is
        # not the last - accepted or refused (other level / version); random operations follow
        P = draw(NEAR)
        K = draw(st.integers(0, 5))
        ops += [{'op': 'add_x', 'parent': P, 'k': K, 'foreign': False} for _ in range(draw(st.integers(2, 3)))]
        ops.append({'op': 'assign_copy', 'parent': P, 'k': K, 'i': draw(st.integers(0, 1)), 'how': draw(st.sampled_from(['index', 'name'])),
                    'mismatch': draw(st.integers(0, 2))})
    if draw(st.integers(0, 7)) == 0:
        # scenario seed: an open-ended segment (a free Z-segment, or one inside a message) gets a low field, then a field
        # further out is offered in a way that may be refused (other level / version) or accepted
        if draw(st.booleans()):
            ops.append({'op': 'new', 'cls': 'Segment', 'name_k': -1, 'lvl': draw(st.sampled_from([TOL, STRICT])), 'ver_k': 0, 'val_k': None})
            P = {'r': 3, 'p': []}
        else:
            R0 = draw(st.integers(0, 2))
            ops.append({'op': 'add_x', 'parent': {'r': R0, 'p': []}, 'k': -1, 'foreign': False})
            P = {'r': R0, 'p': [-1]}
        ops.append({'op': 'add_x', 'parent': P, 'k': draw(st.integers(0, 1)), 'foreign': False})
        for _ in range(draw(st.integers(1, 2))):
            ops.append({'op': 'assign_copy', 'parent': P, 'k': draw(st.integers(1, 3)), 'i': 0, 'how': draw(st.sampled_from(['name', 'add'])),
                        'mismatch': draw(st.integers(0, 2))})
    if draw(st.integers(0, 7)) == 0:
        # scenario seed: three or four repetitions of one child with a child of another name listed between them, then one of
        # the parent's OWN children assigned over another repetition (earlier or later one, by index - negative too - or by name)
        R0 = draw(st.integers(0, 2))
        ops.append({'op': 'add_x', 'parent': {'r': R0, 'p': []}, 'k': draw(st.integers(1, 4)), 'foreign': False})
        P = {'r': R0, 'p': [-1]}
        K, K2 = draw(st.integers(1, 3)), draw(st.integers(4, 6))
        seq = [K, K, K] + ([K] if draw(st.booleans()) else [])
        seq.insert(draw(st.integers(1, len(seq) - 1)), K2)
        ops += [{'op': 'add_x', 'parent': P, 'k': k, 'foreign': False} for k in seq]
        ops.append({'op': 'assign_existing', 'parent': P, 'child': {'r': R0, 'p': [-1, draw(st.integers(0, len(seq) - 1))]},
                    'how': draw(st.sampled_from(['index', 'index', 'name'])), 'i': draw(st.integers(-3, 3))})
    if draw(st.integers(0, 7)) == 0:
        # scenario seed: two free segments of one name, version and level, each with the same fields; then a field of the
        # first is assigned (as an element, not as a copy) over a field of the second - by name or by index, over the first or a
        # later repetition: it must leave the first segment and take the replaced field's place
        lvl = draw(st.sampled_from([TOL, TOL, STRICT]))
        nk = draw(st.integers(0, 5))
        ops += [{'op': 'new', 'cls': 'Segment', 'name_k': nk, 'lvl': lvl, 'ver_k': 0, 'val_k': None} for _ in range(2)]
        ks = [draw(st.integers(0, 4)) for _ in range(draw(st.integers(2, 4)))]
        for r in (-2, -1):
            ops += [{'op': 'add_x', 'parent': {'r': r, 'p': []}, 'k': k, 'foreign': False} for k in ks]
        ops.append({'op': 'assign_existing', 'parent': {'r': -1, 'p': []}, 'child': {'r': -2, 'p': [draw(st.integers(0, len(ks) - 1))]},
                    'how': draw(st.sampled_from(['name', 'index'])), 'i': draw(st.integers(0, 1))})
        if draw(st.booleans()):
            # ... and two of them handed over at once in a wholesale replacement that is refused
            ops.append({'op': 'set_children', 'parent': {'r': -1, 'p': []}, 'n': 0, 'k': 0, 'bad': draw(st.integers(1, 2)),
                        'steal2': [{'r': -2, 'p': [0]}, {'r': -2, 'p': [1]}]})
    if draw(st.integers(0, 9)) == 0:
        # scenario seed: a free component gets a sub-component that has no name of its own (it goes by its datatype) and no
        # value yet; then the datatype of the sub-component, or of the component above it, is changed
        ops.append({'op': 'new', 'cls': 'Component', 'name_k': draw(st.integers(0, 9)), 'lvl': TOL, 'ver_k': 0, 'val_k': None})
        ops.append({'op': 'ctor', 'parent': {'r': -1, 'p': []}, 'k': 0, 'named': False, 'dt': draw(st.sampled_from([0, 2, 2, 3])),
                    'mismatch': 0, 'val': None})
        ops.append({'op': 'datatype', 'target': {'r': -1, 'p': draw(st.sampled_from([[], [0], [0]]))}, 'k': draw(st.integers(0, 7))})
    for op in drawn:
        if op['op'] == 'add_x_twice':       # two children of the same name: two plain operations
            ops += [dict(op, op='add_x', foreign=False), dict(op, op='add_x', foreign=False)]
        else:
            ops.append(op)
    return {'cell': cell, 'ops': ops}
