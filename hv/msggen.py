"""Message instances generated from the structure tables: the group tree is built first (so the expected
tree is known by construction) and only then flattened into segment lines.

Tree node (JSON-able):  {'k': 'S', 'n': name, 'i': index in the parent's child list}
                        {'k': 'G', 'n': name, 'i': index, 'c': [nodes]}
Generator invariants (see DESIGN.md section 2):
 * a child with cardinality (0, 0) is never populated; pseudo segments (ANYHL7SEGMENT/ANYZSEGMENT) never emitted
 * every group instance contains at least one segment
 * a group is repeated only through an *anchor*: a direct segment child with max == 1 all of whose
   predecessors are optional; the anchor is emitted in every repetition and its predecessors are omitted
   from the second repetition on
 * counts stay within [min, max] (max == -1 capped)
"""
import functools

from hypothesis import strategies as st

from hv import tables as T
from hv import refmodel as R
from hv import strategies as S


def children(ref):
    return T.struct_children(ref)


@functools.lru_cache(None)
def usable(v, m):
    """the structure can be instantiated: well formed, every *required* child is a usable real segment/group"""
    ref = T.message_ref(v, m)
    if '_' not in m and T.msh9_components(v) < 3:
        return False        # one-part ids cannot be spelled in a two-component MSH-9: unreachable from text
    return _usable_ref(v, ref, top=True)


def _usable_ref(v, ref, top=False):
    try:
        if not (isinstance(ref, (tuple, list)) and len(ref) >= 2 and ref[0] in ('sequence', 'choice') and ref[1]):
            return False
        kids = children(ref)
        if top and (not kids or kids[0][0] != 'MSH'):
            return False
        seen = set()
        for name, r, (mn, mx), kind in kids:
            if name in seen and mn >= 1:
                return False      # a *required* second sibling of the same name: the generator emits one row per name only
            seen.add(name)
            if kind == 'SEG':
                bad = name in T.PSEUDO_SEGMENTS or name not in T.lib(v).SEGMENTS or T.segment_defect(v, name)
                if bad and mn >= 1:
                    return False
            elif kind == 'GRP':
                ok = _usable_ref(v, r)
                if not ok and mn >= 1:
                    return False
            else:
                return False
        return True
    except Exception:
        return False


def _seg_ok(v, name):
    return name not in T.PSEUDO_SEGMENTS and name in T.lib(v).SEGMENTS and not T.segment_defect(v, name)


def anchor_index(v, ref, depth=0):
    """index of the first direct child with max == 1 whose predecessors are all optional - a segment, or a group that has
    such an anchor itself (its recurrence is the recurrence of a non-repeatable member just the same) - else None"""
    for i, (name, r, (mn, mx), kind) in enumerate(children(ref)):
        if kind == 'SEG' and mx == 1 and _seg_ok(v, name):
            return i
        if kind == 'GRP' and mx == 1 and depth < 3 and _usable_ref(v, r) and anchor_index(v, r, depth + 1) is not None:
            return i
        if mn >= 1:
            return None
    return None


@st.composite
def _tree(draw, v, ref, mode, places, unique, depth, rep_index=0, anchor=None, p_opt=4, force_first=False):
    out = []
    kids = children(ref)
    seen_names = set()
    for i, (name, r, (mn, mx), kind) in enumerate(kids):
        if mx == 0:
            continue
        if name in seen_names:
            continue            # second sibling of the same name: unreachable for the parser, never emitted
        must = mn >= 1 or (anchor is not None and i == anchor)
        if rep_index > 0 and anchor is not None and i < anchor:
            continue
        if force_first and not out and ((kind == 'SEG' and _seg_ok(v, name)) or (kind == 'GRP' and _usable_ref(v, r))):
            must = True       # an otherwise empty group instance: its first usable child is made present
        if kind == 'SEG':
            if not _seg_ok(v, name):
                continue
            seen_names.add(name)
            if unique and places[name] > 1 and not must:
                continue
            if mode == 'required':
                n = mn if not must else max(mn, 1)
            elif mode == 'all':
                n = max(mn, 1)
            else:
                want = must or draw(st.integers(0, 9)) < p_opt
                n = max(mn, 1) if want else 0
                if n and (mx == -1 or mx > n) and draw(st.integers(0, 9)) < (6 if (mode == 'repeat' and depth >= 1) else 3):
                    n += draw(st.integers(1, 2)) if (mx == -1 or mx >= n + 2) else 1
            for _ in range(n):
                out.append({'k': 'S', 'n': name, 'i': i})
        else:
            if not _usable_ref(v, r):
                continue
            seen_names.add(name)
            if mode == 'required':
                n = mn if not must else max(mn, 1)
            elif mode == 'all':
                n = max(mn, 1)
            else:
                want = must or draw(st.integers(0, 9)) < (p_opt + (2 if mode == 'repeat' else 0))
                n = max(mn, 1) if want else 0
            if n == 0:
                continue
            a = anchor_index(v, r)
            if mode in ('random', 'repeat') and a is not None and (mx == -1 or mx > n) and depth < 3:
                if draw(st.integers(0, 9)) < (6 if mode == 'repeat' else 3):
                    n += 1 if (mx != -1 and mx < n + 2) else draw(st.integers(1, 2))
            if a is None:
                n = min(n, 1) if mn <= 1 else n   # groups without an anchor: one instance (required minimum kept)
            for rep in range(n):
                if anchor is not None and i == anchor:
                    # this group is the anchor of its parent: in every repetition of the parent it starts with its own anchor
                    sub_rep, sub_anchor = rep_index, a
                else:
                    sub_rep, sub_anchor = rep, (a if n > 1 or rep > 0 else None)
                sub = draw(_tree(v, r, mode, places, unique, depth + 1, sub_rep, sub_anchor, max(p_opt - 1, 2)))
                if not sub:
                    sub = draw(_tree(v, r, mode, places, unique, depth + 1, sub_rep, sub_anchor, max(p_opt - 1, 2), True))
                if sub:
                    out.append({'k': 'G', 'n': name, 'i': i, 'c': sub})
    return out


def _first_nonempty(v, ref, places, unique):
    """smallest forced content for a group instance that would otherwise be empty"""
    for i, (name, r, (mn, mx), kind) in enumerate(children(ref)):
        if mx == 0:
            continue
        if kind == 'SEG' and _seg_ok(v, name):
            return [{'k': 'S', 'n': name, 'i': i}]
        if kind == 'GRP' and _usable_ref(v, r):
            sub = _first_nonempty(v, r, places, unique)
            if sub:
                return [{'k': 'G', 'n': name, 'i': i, 'c': sub}]
    return []


@st.composite
def instances(draw, v, m, mode='random', unique=False):
    ref = T.message_ref(v, m)
    places = T.name_places(ref)
    return draw(_tree(v, ref, mode, places, unique, 0))


def flat(tree):
    out = []
    for n in tree:
        if n['k'] == 'S':
            out.append(n)
        else:
            out.extend(flat(n['c']))
    return out


def shape(tree):
    return [n['n'] if n['k'] == 'S' else [n['n'], shape(n['c'])] for n in tree]


def has_group(tree):
    return any(n['k'] == 'G' for n in tree)


def depth(tree):
    return max([0] + [1 + depth(n['c']) for n in tree if n['k'] == 'G'])


def has_repeated_group(tree):
    names = [n['n'] for n in tree if n['k'] == 'G']
    if len(names) != len(set(names)):
        return True
    return any(has_repeated_group(n['c']) for n in tree if n['k'] == 'G')


def eligible(v, m, tree):
    """every emitted segment name occurs at exactly one place of the structure (C08 clause 5)"""
    places = T.name_places(T.message_ref(v, m))
    return all(places[n['n']] == 1 for n in flat(tree))


def node_ref(parent_ref, node):
    return parent_ref[1][node['i']][1]


# ---------------------------------------------------------------------------------------------
# conforming content

@st.composite
def conforming_component(draw, v, ref, ec, p_opt=2):
    ch = T.ref_children(v, ref)
    if not ch:
        return draw(S.valid_leaf(v, ref[2], ec))
    out = []
    for (sname, k, sref, (mn, mx)) in ch:
        if mx != 0 and (mn >= 1 or draw(st.integers(0, 9)) < p_opt):
            sdt = sref[2]
            out.append(draw(S.valid_leaf(v, sdt if T.is_base(v, sdt) else 'ST', ec)))
        else:
            out.append('')
    out = R.trim(out, '')
    if not out:
        for idx, (sname, k, sref, (mn, mx)) in enumerate(ch):
            if mx != 0:
                sdt = sref[2]
                out = [''] * idx + [draw(S.valid_leaf(v, sdt if T.is_base(v, sdt) else 'ST', ec))]
                break
    return ec['SUBCOMPONENT'].join(out)


@st.composite
def conforming_repetition(draw, v, ref, ec, p_opt=2):
    ch = T.ref_children(v, ref)
    if not ch:
        return draw(S.valid_leaf(v, ref[2], ec))
    out = []
    for (cname, j, cref, (mn, mx)) in ch:
        if mx != 0 and (mn >= 1 or draw(st.integers(0, 9)) < p_opt):
            out.append(draw(conforming_component(v, cref, ec, p_opt)))
        else:
            out.append('')
    out = R.trim(out, '')
    if not out:
        for idx, (cname, j, cref, (mn, mx)) in enumerate(ch):
            if mx != 0:
                out = [''] * idx + [draw(conforming_component(v, cref, ec, p_opt))]
                break
    return ec['COMPONENT'].join(out)


@st.composite
def conforming_fields(draw, v, sref, ec, p_opt=2, fixed=None):
    """dict index -> field text, satisfying the segment reference `sref` (required present, maxima respected,
    withdrawn (0,0) positions empty, only defined positions)"""
    fixed = fixed or {}
    fields = {}
    for c in sref[1]:
        name, ref, (mn, mx) = c[0], c[1], tuple(c[2])
        i = T.idx_of(name)
        if i in fixed:
            if fixed[i] is not None:
                fields[i] = fixed[i]
            continue
        if mx == 0:
            continue
        if mn >= 1 or draw(st.integers(0, 9)) < p_opt:
            n = max(mn, 1)
            if (mx == -1 or mx > n) and draw(st.integers(0, 9)) < 2:
                n += 1
            fields[i] = ec['REPETITION'].join(draw(conforming_repetition(v, ref, ec, p_opt)) for _ in range(n))
    return fields


@st.composite
def conforming_segment_line(draw, v, name, sref, ec, p_opt=2):
    fields = draw(conforming_fields(v, sref, ec, p_opt))
    return R.enc_segment(name, fields, ec)


@st.composite
def conforming_msh(draw, v, m, sref, ec, p_opt=1):
    fixed = {1: None, 2: None, 9: S.msh9_text(v, m, ec), 12: v}
    fields = draw(conforming_fields(v, sref, ec, p_opt, fixed))
    vals = [fields.get(i, '') for i in range(3, max(fields) + 1)]
    return 'MSH' + ec['FIELD'] + R.msh2(ec) + ec['FIELD'] + ec['FIELD'].join(R.trim(vals, ''))


@st.composite
def instance_lines(draw, v, m, tree, ec, conforming=False, ref=None, p_opt=2):
    """segment lines of the instance, in order. conforming: every line satisfies its segment reference"""
    ref = ref if ref is not None else T.message_ref(v, m)
    lines = []
    for node in tree:
        r = node_ref(ref, node)
        if node['k'] == 'G':
            lines.extend(draw(instance_lines(v, m, node['c'], ec, conforming, r, p_opt)))
        elif node['n'] == 'MSH':
            if conforming:
                lines.append(draw(conforming_msh(v, m, r, ec)))
            else:
                lines.append(draw(S.msh_line(v, m, ec)))
        elif conforming:
            lines.append(draw(conforming_segment_line(v, node['n'], r, ec, p_opt)))
        else:
            lines.append(draw(S.segment_line(v, node['n'], ec, p_fill=2)))
    return lines
