"""Literal values per base datatype (harness-side knowledge of the HL7 lexical forms)."""

TEXTUAL = ('ST', 'FT', 'TX', 'ID', 'IS', 'GTS', 'SNM', 'WD', 'CM', 'TN')

# valid for STRICT construction through datatype_factory, canonical (re-encode verbatim)
VALID = {
    'ST': ['X1', 'yz'], 'FT': ['X1', 'yz'], 'TX': ['X1', 'yz'], 'ID': ['X1', 'yz'], 'IS': ['X1', 'yz'],
    'GTS': ['X1', 'yz'], 'SNM': ['X1', 'yz'], 'WD': ['X1', 'yz'], 'CM': ['X1', 'yz'],
    'TN': ['555-1234', '(12)345-6789'],
    'NM': ['7', '12.5'], 'SI': ['3', '12'],
    'DT': ['20200229', '1999'], 'TM': ['1230', '235959'], 'DTM': ['202002291230', '19991231'],
    'varies': ['X1', 'yz'], None: ['X1', 'yz'],
}


def valid(dt, k=0):
    vals = VALID.get(dt, VALID['ST'])
    return vals[k % len(vals)]


def first_leaf_dt(tables, v, ref, depth=0):
    """datatype of the first leaf reached from a field/component reference by always taking child 1"""
    dt = ref[2]
    if dt is None or dt == 'varies' or tables.is_base(v, dt):
        return dt
    ch = tables.ref_children(v, ref)
    if not ch or depth >= 2:
        return 'ST'
    return first_leaf_dt(tables, v, ch[0][2], depth + 1)
