"""Literal values per base datatype (harness-side knowledge of the HL7 lexical forms)."""

TEXTUAL = ('ST', 'FT', 'TX', 'ID', 'IS', 'GTS', 'SNM', 'WD', 'CM', 'TN')

# valid for STRICT construction through datatype_factory, canonical (re-encode verbatim)
_TXT = ['X1', 'yz', 'Q3', 'w9', 'K5']
VALID = {
    'ST': _TXT, 'FT': _TXT, 'TX': _TXT, 'ID': _TXT, 'IS': _TXT, 'GTS': _TXT, 'SNM': _TXT, 'WD': _TXT, 'CM': _TXT,
    'TN': ['555-1234', '(12)345-6789', '555-0001', '555-0002', '555-0003'],
    'NM': ['7', '12.5', '3', '44', '0.5'], 'SI': ['3', '12', '7', '41', '5'],
    'DT': ['20200229', '1999', '202011', '20010203', '1987'], 'TM': ['1230', '235959', '08', '0915', '101112'],
    'DTM': ['202002291230', '19991231', '2001', '200102030405', '20211010'],
    'varies': _TXT, None: _TXT,
}


def valid(dt, k=0):
    vals = VALID.get(dt, VALID['ST'])
    return vals[k % len(vals)]


def first_leaf_dt(tables, v, ref, depth=0):
    """datatype of the first leaf reached from a field/component reference by always taking child 1"""
    dt = ref[2]
    if dt is None or dt == 'varies' or tables.is_base(v, dt):
        return dt
    ch = tables.ref_children(v, ref)
    if not ch or depth >= 2:
        return 'ST'
    return first_leaf_dt(tables, v, ch[0][2], depth + 1)
