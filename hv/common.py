"""Shared plumbing: repository import, accumulators, violation records, known findings,
Hypothesis driver (collect -> mute -> continue), sharded execution."""
import os
import sys
import json
import time
import hashlib
import collections
import traceback

VERIF_DIR = os.path.dirname(os.path.dirname(os.path.abspath(__file__)))
REPO = os.environ.get('VERIF_REPO', '/repo')


def import_repo():
    """Put the repository under test first on sys.path and make sure that is what gets imported."""
    if REPO not in sys.path[:1]:
        sys.path.insert(0, REPO)
    import hl7apy
    where = os.path.realpath(os.path.dirname(hl7apy.__file__))
    if not where.startswith(os.path.realpath(REPO) + os.sep):
        raise HarnessError('hl7apy imported from %s, expected under %s' % (where, REPO))
    return hl7apy


class HarnessError(Exception):
    pass


def h(obj):
    """Short stable hash of a JSON-able object (or str)."""
    if not isinstance(obj, str):
        obj = json.dumps(obj, sort_keys=True, default=str, ensure_ascii=True)
    return hashlib.blake2b(obj.encode('utf-8', 'surrogatepass'), digest_size=8).hexdigest()


def short(x, n=300):
    s = x if isinstance(x, str) else repr(x)
    return s if len(s) <= n else s[:n] + '...(%d chars)' % len(s)


# ---------------------------------------------------------------------------------------------
# known findings (read-only at run time)

_KF = None


def known_findings():
    global _KF
    if _KF is None:
        path = os.path.join(VERIF_DIR, 'known_findings.json')
        with open(path) as f:
            data = json.load(f)
        _KF = data['findings']
    return _KF


def known_index(prop):
    """sig -> finding id, for entries of this property with status 'known'.
    A finding lists exact signatures ("sigs"); nothing else is ever suppressed."""
    idx = {}
    for e in known_findings():
        if e.get('status') != 'known':
            continue
        if prop not in e['properties']:
            continue
        for s in e.get('sigs', {}).get(prop, []):
            idx[s] = e['id']
    return idx


# ---------------------------------------------------------------------------------------------

class Acc(object):
    """Per-shard accumulator; merged by the parent."""
    MAX_SAMPLES = 8
    MAX_PER_SIG = 3

    def __init__(self, prop):
        self.prop = prop
        self.evaluations = 0
        self.nontrivial = set()
        self.nontrivial_enum = 0     # distinct-by-construction cases of enumerated domains
        self.samples = []
        self.classes = collections.Counter()
        self.violations = {}         # sig -> {'count', 'cases': [..]}
        self.known_hits = collections.Counter()
        self.excluded = collections.Counter()
        self.inconclusive = 0
        self.extra = collections.Counter()
        self._known = known_index(prop)
        self._per_label = {}
        self._next_sample = 5

    # -- cases
    def case(self, key=None, nontrivial=False, sample=None, label=None, enumerated=False):
        self.evaluations += 1
        if nontrivial:
            if enumerated:
                self.nontrivial_enum += 1
            else:
                self.nontrivial.add(key if isinstance(key, str) and len(key) <= 16 else h(key))
        if label is not None:
            self.classes[label] += 1
        if sample is not None and nontrivial and len(self.samples) < self.MAX_SAMPLES:
            # spread the samples over the run and over the labels (deterministic strides)
            k = self._per_label.get(label, 0)
            if k < 3 and self.evaluations >= self._next_sample:
                self.samples.append(sample)
                self._per_label[label] = k + 1
                self._next_sample = self.evaluations + 1 + self.evaluations // 2

    def label(self, *labels):
        for l in labels:
            self.classes[l] += 1

    # -- violations
    def is_known(self, sig):
        return sig in self._known

    def violation(self, sig, case, detail):
        """Record; returns True if the signature is NOT a listed known finding."""
        if sig in self._known:
            self.known_hits[self._known[sig]] += 1
            return False
        v = self.violations.setdefault(sig, {'count': 0, 'cases': []})
        v['count'] += 1
        rec = {'case': case, 'detail': short(detail, 1500)}
        size = len(json.dumps(case, default=str))
        rec['_size'] = size
        cases = v['cases']
        cases.append(rec)
        cases.sort(key=lambda r: r['_size'])
        del cases[self.MAX_PER_SIG:]
        return True

    def dump(self):
        return {
            'evaluations': self.evaluations, 'nontrivial': self.nontrivial,
            'nontrivial_enum': self.nontrivial_enum, 'samples': self.samples,
            'classes': self.classes, 'violations': self.violations, 'known_hits': self.known_hits,
            'excluded': self.excluded, 'inconclusive': self.inconclusive, 'extra': self.extra,
        }

    def merge(self, d):
        self.evaluations += d['evaluations']
        self.nontrivial |= d['nontrivial']
        self.nontrivial_enum += d['nontrivial_enum']
        for s in d['samples']:
            if len(self.samples) < 24:
                self.samples.append(s)
        self.classes.update(d['classes'])
        self.known_hits.update(d['known_hits'])
        self.excluded.update(d['excluded'])
        self.extra.update(d['extra'])
        self.inconclusive += d['inconclusive']
        for sig, v in d['violations'].items():
            mine = self.violations.setdefault(sig, {'count': 0, 'cases': []})
            mine['count'] += v['count']
            mine['cases'].extend(v['cases'])
            mine['cases'].sort(key=lambda r: r['_size'])
            del mine['cases'][self.MAX_PER_SIG:]


class Deadline(object):
    def __init__(self, seconds):
        self.t_end = time.time() + seconds if seconds else None

    def expired(self):
        return self.t_end is not None and time.time() > self.t_end


# ---------------------------------------------------------------------------------------------
# Hypothesis driver

def hyp_settings(max_examples, shrink, stateful_step_count=None):
    from hypothesis import settings, HealthCheck, Phase
    phases = [Phase.explicit, Phase.generate] + ([Phase.shrink] if shrink else [])
    kw = dict(max_examples=max_examples, deadline=None, database=None, derandomize=False,
              report_multiple_bugs=False, phases=phases, print_blob=False,
              suppress_health_check=list(HealthCheck))
    if stateful_step_count is not None:
        kw['stateful_step_count'] = stateful_step_count
    return settings(**kw)


class _Found(Exception):
    pass


def hyp_collect(acc, strategy, check, seed, max_examples, shrink=False, rounds=4, deadline=None):
    """Drive `check(case, acc) -> list of (sig, detail)` over `strategy`.

    Listed known findings are counted and skipped; the first unlisted signature makes the
    Hypothesis test fail (so that it is shrunk when `shrink`), is recorded with the final
    (minimal) case, muted, and the search is restarted so that further root causes behind it
    are enumerated too.  `case` must be JSON-able: it is what a replay file stores."""
    import hypothesis
    from hypothesis import given
    muted = set()
    for rnd in range(rounds):
        last = {}

        @hypothesis.seed(seed + 7919 * rnd)
        @hyp_settings(max_examples, shrink)
        @given(strategy)
        def t(case):
            if deadline is not None and deadline.expired():
                return
            for sig, detail in check(case, acc):
                if acc.is_known(sig):
                    acc.violation(sig, case, detail)
                    continue
                if sig in muted:
                    continue
                last['v'] = (sig, case, detail)
                raise _Found(sig)
        try:
            t()
        except _Found:
            sig, case, detail = last['v']
            acc.violation(sig, case, detail)
            muted.add(sig)
            continue
        except Exception as e:
            name = type(e).__name__
            if name in ('Flaky', 'FlakyFailure', 'FlakyStrategyDefinition') and 'v' in last:
                sig, case, detail = last['v']
                acc.violation(sig, case, 'non-deterministic: ' + detail)
                muted.add(sig)
                continue
            raise
        break
    if deadline is not None and deadline.expired():
        acc.inconclusive += 1


# ---------------------------------------------------------------------------------------------
# coverage-guided campaigns (atheris / libFuzzer) - see hv/fuzzworker.py

def ensure_atheris():
    """atheris for /venv's interpreter lives in <verif>/.deps (installed from the offline wheelhouse when missing)"""
    import subprocess
    deps = os.path.join(VERIF_DIR, '.deps')
    if not os.path.isdir(os.path.join(deps, 'atheris')):
        p = subprocess.run([sys.executable, '-m', 'pip', 'install', '-q', '--no-index', '--find-links', '/opt/veriftools/wheels',
                            '--target', deps, 'atheris'], stdout=subprocess.PIPE, stderr=subprocess.STDOUT, env=dict(os.environ, PIP_NO_INDEX='1'))
        if p.returncode != 0 and not os.path.isdir(os.path.join(deps, 'atheris')):
            raise HarnessError('atheris could not be installed offline: %s' % p.stdout.decode('utf8', 'replace')[-300:])
    return deps


def ddmin_text(text, still_fails, budget=1500):
    """delta debugging on a string: smallest text (by removing chunks) for which still_fails(text) holds; bounded by `budget` calls"""
    calls = [0]

    def test(t):
        calls[0] += 1
        return calls[0] <= budget and still_fails(t)
    n = 2
    while len(text) >= 2 and calls[0] < budget:
        chunk = max(len(text) // n, 1)
        reduced = False
        for i in range(0, len(text), chunk):
            cand = text[:i] + text[i + chunk:]
            if test(cand):
                text, n, reduced = cand, max(n - 1, 2), True
                break
        if not reduced:
            if chunk == 1:
                break
            n = min(n * 2, len(text))
    return text


def run_fuzz(acc, target, corpus, seed, runs, max_len, check, decode, label, dictionary=(), text_key='text'):
    """one libFuzzer campaign in a child process; corpus: list of bytes (may be empty).  Every violation signature found is
    minimised (ddmin on the text, same signature) and recorded through acc like any other violation."""
    import shutil
    import subprocess
    import tempfile
    deps = ensure_atheris()
    work = tempfile.mkdtemp(prefix='hv-fuzz-', dir='/var/tmp')
    try:
        cdir = os.path.join(work, 'corpus')
        os.mkdir(cdir)
        for i, b in enumerate(corpus):
            with open(os.path.join(cdir, 'seed-%04d' % i), 'wb') as f:
                f.write(b)
        out = os.path.join(work, 'out.json')
        extra = []
        if dictionary:
            with open(os.path.join(work, 'tokens.dict'), 'w') as f:
                for tok in dictionary:
                    f.write('"%s"\n' % ''.join(c if (32 <= ord(c) < 127 and c not in '"\\') else '\\x%02x' % ord(c) for c in tok))
            extra = ['-dict=' + os.path.join(work, 'tokens.dict')]
        env = dict(os.environ, PYTHONPATH=deps + os.pathsep + VERIF_DIR, PYTHONHASHSEED='0')
        p = subprocess.run([sys.executable, '-m', 'hv.fuzzworker', target, REPO, out, cdir, '-runs=%d' % runs, '-seed=%d' % (seed or 1),
                            '-max_len=%d' % max_len, '-timeout=120', '-rss_limit_mb=4096', '-print_final_stats=0', '-verbosity=0'] + extra,
                           cwd=VERIF_DIR, env=env, stdout=subprocess.PIPE, stderr=subprocess.STDOUT)
        if not os.path.exists(out):
            raise HarnessError('fuzz worker produced nothing: %s' % p.stdout.decode('utf8', 'replace')[-500:])
        res = json.load(open(out))
        if p.returncode != 0:
            # libFuzzer's own stop conditions (timeout of one input, out of memory, a crash of the interpreter)
            tail = p.stdout.decode('utf8', 'replace')[-600:]
            if 'HARNESS-ERROR' in tail or res['execs'] == 0:
                raise HarnessError('fuzz worker failed: %s' % tail)
            acc.inconclusive += 1
            acc.extra['fuzz:campaign-ended-early(exit %d)' % p.returncode] += 1
    finally:
        shutil.rmtree(work, ignore_errors=True)
    acc.evaluations += res['execs']
    acc.nontrivial_enum += res['distinct_nontrivial']
    acc.classes[label] += res['execs']
    acc.extra['fuzz:execs'] += res['execs']
    acc.extra['fuzz:seed-corpus-inputs'] += len(corpus)
    for s in res['samples'][:2]:
        if len(acc.samples) < acc.MAX_SAMPLES:
            acc.samples.append(s)
    for sig, ent in sorted(res['violations'].items()):
        case = ent['case']
        if not acc.is_known(sig):
            def still(t, case=case, sig=sig):
                return any(s2 == sig for s2, _ in check(dict(case, **{text_key: t})))
            case = dict(case, **{text_key: ddmin_text(case[text_key], still)})
        detail = ent['detail']
        for s2, d2 in check(case):
            if s2 == sig:
                detail = d2
        for _ in range(ent['count']):
            acc.violation(sig, case, detail)
    return res


# ---------------------------------------------------------------------------------------------
# sharded execution

def _run_one(args):
    modname, shard = args
    try:
        import importlib
        import_repo()
        mod = importlib.import_module(modname)
        acc = Acc(mod.ID)
        mod.run_shard(shard, acc)
        return ('ok', acc.dump())
    except BaseException:
        return ('err', 'shard %r\n%s' % (short(shard, 200), traceback.format_exc()))


def run_shards(modname, shards, acc, procs=None):
    import multiprocessing as mp
    procs = procs or min(int(os.environ.get('VERIF_PROCS', '16')), max(1, len(shards)))
    errors = []
    if procs <= 1 or len(shards) <= 1:
        results = map(_run_one, [(modname, s) for s in shards])
        for kind, payload in results:
            if kind == 'ok':
                acc.merge(payload)
            else:
                errors.append(payload)
        return errors
    ctx = mp.get_context('fork')
    with ctx.Pool(procs, maxtasksperchild=None) as pool:
        for kind, payload in pool.imap_unordered(_run_one, [(modname, s) for s in shards]):
            if kind == 'ok':
                acc.merge(payload)
            else:
                errors.append(payload)
    return errors
