"""Worker of C04's determinism pass, run in a fresh interpreter under a given PYTHONHASHSEED:
builds a message of the given structure through the API, puts the given foreign segments and unnamed fields in, and prints the
validation report (errors, warnings, what the raising form raises) as JSON."""
import json
import sys


def main():
    repo, case = sys.argv[1], json.loads(sys.argv[2])
    sys.path.insert(0, repo)
    from hl7apy.core import Message
    m = Message(case['m'], version=case['v'], validation_level=2)
    m.msh.msh_7 = '20200101'
    for s in case['foreign']:
        try:
            m.add_segment(s)
        except Exception:
            pass
    for s in case['text']:
        try:
            m.add_segment(s[:3]).value = s
        except Exception:
            pass
    r = m.validate(return_errors=True)
    out = {'errors': [str(e) for e in r.errors], 'warnings': [str(w) for w in r.warnings]}
    try:
        m.validate()
        out['raised'] = None
    except Exception as e:
        out['raised'] = '%s: %s' % (type(e).__name__, e)
    sys.stdout.write(json.dumps(out))


if __name__ == '__main__':
    main()
