"""Harness-owned thread schedules for code under /hl7apy/ (pure Python, so line granularity is the unit).

* preempt(): run task A in a traced thread, suspend it at the k-th traced line, run task B to completion in
  another thread, resume A.  Enumerating k gives every single-preemption interleaving of A and B.
* interleave(): N traced threads passing a token according to a list of (thread, number of lines) slices.
Both are deterministic functions of their arguments."""
import sys
import threading


def _is_lib(filename):
    return '/hl7apy/' in filename.replace('\\', '/')


def outcome(fn):
    try:
        return ('ok', fn())
    except Exception as e:
        return ('exc', type(e).__name__, str(e)[:200])


def trace_points(task, select):
    """dry run: the list of (file basename, function, lineno) of every traced line of `task` that `select` accepts"""
    pts = []

    def local(frame, event, arg):
        if event == 'line':
            co = frame.f_code
            key = (co.co_filename.rsplit('/', 1)[-1], co.co_name, frame.f_lineno)
            if select(key):
                pts.append(key)
        return local

    def glob(frame, event, arg):
        return local if _is_lib(frame.f_code.co_filename) else None
    res = {}

    def run():
        sys.settrace(glob)
        try:
            res['r'] = outcome(task)
        finally:
            sys.settrace(None)
    t = threading.Thread(target=run)
    t.start()
    t.join(120)
    return pts, res.get('r')


def preempt(task_a, task_b, loc, occurrence=0):
    """suspend A just before the `occurrence`-th execution (0-based) of source location loc = (file basename, function, line),
    run B completely in another thread, resume A. -> (result A, result B, reached)"""
    paused, resume = threading.Event(), threading.Event()
    state = {'n': 0, 'reached': False}
    res = {}
    fn, func, line = loc

    def local(frame, event, arg):
        if event == 'line' and frame.f_lineno == line and not state['reached']:
            co = frame.f_code
            if co.co_name == func and co.co_filename.endswith(fn):
                if state['n'] == occurrence:
                    state['reached'] = True
                    paused.set()
                    resume.wait(60)
                state['n'] += 1
        return local

    def glob(frame, event, arg):
        co = frame.f_code
        if _is_lib(co.co_filename):
            # only frames of the target function need line events
            return local if (co.co_name == func and co.co_filename.endswith(fn)) else glob_quiet
        return None

    def glob_quiet(frame, event, arg):
        return None

    def run_a():
        sys.settrace(glob)
        try:
            res['a'] = outcome(task_a)
        finally:
            sys.settrace(None)
            paused.set()
    ta = threading.Thread(target=run_a)
    ta.start()
    paused.wait(120)

    def run_b():
        res['b'] = outcome(task_b)
    tb = threading.Thread(target=run_b)
    tb.start()
    tb.join(120)
    resume.set()
    ta.join(120)
    return res.get('a'), res.get('b'), state['reached']


class _Token(object):
    def __init__(self, n, slices):
        self.n, self.cv = n, threading.Condition()
        self.alive = [True] * n
        self.slices, self.pos = list(slices), 0
        self.cur, self.budget = (self.slices[0][0] % n, self.slices[0][1]) if self.slices else (0, 10 ** 9)
        self.switches = 0

    def _next(self):
        self.pos += 1
        if self.pos < len(self.slices):
            t, b = self.slices[self.pos]
            t %= self.n
        else:
            t, b = (self.cur + 1) % self.n, 11
        for k in range(self.n):
            c = (t + k) % self.n
            if self.alive[c]:
                self.cur, self.budget = c, b
                self.switches += 1
                self.cv.notify_all()
                return

    def step(self, i):
        with self.cv:
            while self.cur != i:
                self.cv.wait(30)
            self.budget -= 1
            if self.budget <= 0:
                self._next()
                while self.cur != i and self.alive[i]:
                    self.cv.wait(30)

    def start(self, i):
        with self.cv:
            while self.cur != i:
                self.cv.wait(30)

    def done(self, i):
        with self.cv:
            self.alive[i] = False
            if self.cur == i:
                self._next()


def interleave(tasks, slices):
    """-> (list of outcomes, number of forced switches)"""
    n = len(tasks)
    tok = _Token(n, slices)
    out = [None] * n

    def tracer_for(i):
        def local(frame, event, arg):
            if event == 'line':
                tok.step(i)
            return local

        def glob(frame, event, arg):
            return local if _is_lib(frame.f_code.co_filename) else None
        return glob

    def worker(i):
        tok.start(i)
        sys.settrace(tracer_for(i))
        try:
            out[i] = outcome(tasks[i])
        finally:
            sys.settrace(None)
            tok.done(i)
    ths = [threading.Thread(target=worker, args=(i,)) for i in range(n)]
    for t in ths:
        t.start()
    for t in ths:
        t.join(120)
    return out, tok.switches
