"""Read-only census of the version tables *as the library loads them*.
Nothing here calls the code under test except load_library (which only imports table modules)."""
import functools
import collections

from hv.common import import_repo

hl7apy = import_repo()
from hl7apy import load_library  # noqa: E402


def vkey(v):
    return [int(x) for x in v.split('.')]


VERSIONS = sorted(hl7apy.SUPPORTED_LIBRARIES, key=vkey)
PSEUDO_SEGMENTS = ('ANYHL7SEGMENT', 'ANYZSEGMENT')


@functools.lru_cache(None)
def lib(v):
    return load_library(v)


def is_base(v, dt):
    return dt in lib(v).BASE_DATATYPES


def idx_of(name):
    return int(name.rsplit('_', 1)[1])


@functools.lru_cache(None)
def segment_defect(v, s):
    """None if the table row of segment s is well formed, else a short reason (table data defect)."""
    ref = lib(v).SEGMENTS[s]
    if s in PSEUDO_SEGMENTS:
        return 'pseudo'
    if not isinstance(ref, (tuple, list)) or len(ref) < 2 or ref[0] != 'sequence':
        return 'row is not (sequence, children)'
    if not ref[1]:
        return 'no field rows'
    for c in ref[1]:
        if not (isinstance(c, (tuple, list)) and len(c) == 4 and isinstance(c[0], str)):
            return 'malformed field row'
    return None


@functools.lru_cache(None)
def segments(v, include_defective=False):
    out = []
    for s in sorted(lib(v).SEGMENTS):
        d = segment_defect(v, s)
        if d == 'pseudo':
            continue
        if d and not include_defective:
            continue
        out.append(s)
    return tuple(out)


@functools.lru_cache(None)
def seg_fields(v, s):
    """tuple of (field name, index, ref, (min, max)) in table order; rows whose name does not belong
    to the segment are reported by field_row_defect and still listed."""
    return tuple((c[0], idx_of(c[0]) if c[0].rsplit('_', 1)[-1].isdigit() else None, c[1], tuple(c[2]))
                 for c in lib(v).SEGMENTS[s][1])


def field_row_defect(v, s, row):
    name, i, ref, card = row
    if i is None or not name.startswith(s + '_'):
        return 'field name %s does not belong to %s' % (name, s)
    if ref is None or ref[0] not in ('leaf', 'sequence'):
        return 'bad reference'
    return None


@functools.lru_cache(None)
def dt_children(v, dt):
    """children rows of a complex datatype: tuple of (name, index, ref, (min,max)) or None"""
    st = lib(v).DATATYPES_STRUCTS.get(dt)
    if st is None:
        return None
    return tuple((c[0], idx_of(c[0]), c[1], tuple(c[2])) for c in st)


def ref_children(v, ref):
    """children rows of a field/component reference (embedded structure first, table otherwise)."""
    if ref[0] == 'sequence' and ref[1]:
        return tuple((c[0], idx_of(c[0]), c[1], tuple(c[2])) for c in ref[1])
    dt = ref[2]
    if dt is None or dt == 'varies' or is_base(v, dt):
        return None
    return dt_children(v, dt)


def ref_dt(ref):
    return ref[2]


@functools.lru_cache(None)
def complex_datatypes(v):
    return tuple(sorted(lib(v).DATATYPES_STRUCTS))


@functools.lru_cache(None)
def messages(v, real_only=True):
    """message structure names; template names (lower case letters: RSP_Znn ...) are excluded when real_only"""
    out = []
    for m in sorted(lib(v).MESSAGES):
        if real_only and m != m.upper():
            continue
        out.append(m)
    return tuple(out)


def message_ref(v, m):
    return lib(v).MESSAGES[m]


def struct_children(ref):
    """children rows of a message/group reference: (name, ref, (min,max), 'SEG'|'GRP')"""
    return tuple((c[0], c[1], tuple(c[2]), c[3]) for c in ref[1])


def name_places(ref, acc=None):
    """Counter: segment name -> number of places of the structure (recursively) it occurs at"""
    acc = collections.Counter() if acc is None else acc
    for name, r, card, kind in struct_children(ref):
        if kind == 'SEG':
            acc[name] += 1
        else:
            name_places(r, acc)
    return acc


def group_names(ref, acc=None):
    acc = collections.Counter() if acc is None else acc
    for name, r, card, kind in struct_children(ref):
        if kind == 'GRP':
            acc[name] += 1
            group_names(r, acc)
    return acc


def has_dup_siblings(ref):
    cnt = collections.Counter(c[0] for c in ref[1])
    if any(n > 1 for n in cnt.values()):
        return True
    return any(has_dup_siblings(c[1]) for c in ref[1] if c[3] == 'GRP')


def struct_ok(v, ref):
    """True when every segment the structure names (recursively) is a usable, non-pseudo segment row
    and every group reference is well formed."""
    try:
        for name, r, card, kind in struct_children(ref):
            if kind == 'SEG':
                if name in PSEUDO_SEGMENTS or name not in lib(v).SEGMENTS or segment_defect(v, name):
                    return False
            elif kind == 'GRP':
                if not (isinstance(r, (tuple, list)) and len(r) >= 2 and r[0] in ('sequence', 'choice')):
                    return False
                if not struct_ok(v, r):
                    return False
            else:
                return False
    except Exception:
        return False
    return True


def msh9_components(v):
    """number of components the version's MSH-9 datatype defines"""
    for name, i, ref, card in seg_fields(v, 'MSH'):
        if i == 9:
            ch = ref_children(v, ref)
            return len(ch) if ch else 1
    return 1


def textual_classes(v):
    """base datatype classes of version v that escape (subclasses of TextualDataType)"""
    from hl7apy.base_datatypes import TextualDataType
    return {k: c for k, c in lib(v).BASE_DATATYPES.items()
            if isinstance(c, type) and issubclass(c, TextualDataType)}
