"""Independent ER7 reference model, written with str.split / str.join only (no code of the library)."""
import re


DEFAULT_EC = {'FIELD': '|', 'COMPONENT': '^', 'SUBCOMPONENT': '&', 'REPETITION': '~', 'ESCAPE': '\\'}
DEFAULT_EC_27 = dict(DEFAULT_EC, TRUNCATION='#')


def ec_dict(field, comp, rep, esc, sub, trunc=None):
    d = {'FIELD': field, 'COMPONENT': comp, 'REPETITION': rep, 'ESCAPE': esc, 'SUBCOMPONENT': sub,
         'SEGMENT': '\r', 'GROUP': '\r'}
    if trunc is not None:
        d['TRUNCATION'] = trunc
    return d


def full(ec):
    d = dict(ec)
    d.setdefault('SEGMENT', '\r')
    d.setdefault('GROUP', '\r')
    return d


def msh2(ec, with_trunc=None):
    s = ec['COMPONENT'] + ec['REPETITION'] + ec['ESCAPE'] + ec['SUBCOMPONENT']
    if with_trunc if with_trunc is not None else ('TRUNCATION' in ec):
        s += ec['TRUNCATION']
    return s


def trim(lst, empty):
    lst = list(lst)
    while lst and lst[-1] == empty:
        lst.pop()
    return lst


def enc_component(subs, ec):
    """subs: list of leaf strings (already in encoded form)"""
    return ec['SUBCOMPONENT'].join(trim(subs, ''))


def enc_repetition(comps, ec):
    """comps: list of components; a component is a str (leaf) or a list of sub-component strings"""
    out = [c if isinstance(c, str) else enc_component(c, ec) for c in comps]
    return ec['COMPONENT'].join(trim(out, ''))


def enc_field(reps, ec):
    """reps: list of repetitions; a repetition is a str or a list of components"""
    out = [r if isinstance(r, str) else enc_repetition(r, ec) for r in reps]
    return ec['REPETITION'].join(out)


def enc_segment(name, fields, ec):
    """fields: dict index(1-based) -> field text (already encoded) ; MSH: index 1/2 are implied"""
    if not fields:
        return name
    n = max(fields)
    vals = [fields.get(i, '') for i in range(1, n + 1)]
    if name == 'MSH':
        # MSH-1 is the separator itself
        vals = vals[1:]
        return name + ec['FIELD'] + ec['FIELD'].join(trim(vals, ''))
    vals = trim(vals, '')
    if not vals:
        return name
    return name + ec['FIELD'] + ec['FIELD'].join(vals)


def split_segment(line, ec):
    """-> (name, {index: [repetitions -> [components -> [subcomponents]]]}) ; only non-empty fields"""
    name = line[:3]
    if name == 'MSH':
        rest = line[4:]
        parts = rest.split(ec['FIELD']) if len(line) > 3 else []
        fields = {1: [[[line[3:4]]]]}
        if parts:
            fields[2] = [[[parts[0]]]]
        start, parts = 3, parts[1:]
    else:
        parts = line[4:].split(ec['FIELD']) if len(line) > 3 else []
        fields, start = {}, 1
    for k, f in enumerate(parts):
        if f == '':
            continue
        fields[start + k] = [[c.split(ec['SUBCOMPONENT']) for c in r.split(ec['COMPONENT'])]
                             for r in f.split(ec['REPETITION'])]
    return name, fields


def split_message(text, ec):
    return [split_segment(l, ec) for l in text.split('\r') if l != '']


def leaves_of_segment(line, ec):
    """(name, [non-empty leaf strings in order])"""
    name, fields = split_segment(line, ec)
    out = []
    for i in sorted(fields):
        for rep in fields[i]:
            for comp in rep:
                for sub in comp:
                    if sub != '':
                        out.append(sub)
    return name, out


def leaves(text, ec):
    return [leaves_of_segment(l, ec) for l in text.split('\r') if l != '']


def counts(text, ec):
    """(segments, fields, repetitions, components, subcomponents) of a message text"""
    segs = [l for l in text.split('\r') if l != '']
    nf = nr = nc = ns = 0
    for l in segs:
        fs = l.split(ec['FIELD'])
        nf += len(fs)
        body = fs[2:] if l.startswith('MSH') else fs[1:]
        for f in body:
            rs = f.split(ec['REPETITION'])
            nr += len(rs)
            for r in rs:
                cs = r.split(ec['COMPONENT'])
                nc += len(cs)
                for c in cs:
                    ns += len(c.split(ec['SUBCOMPONENT']))
    return (len(segs), nf, nr, nc, ns)


# ---------------------------------------------------------------------------------------------
# escape language

def esc_letters(ec):
    return 'HNFSTREL' if 'TRUNCATION' in ec else 'HNFSTRE'


# the standard's escape sequences that do not stand for a delimiter (HL7 v2 chapter 2, "use of escape sequences in text
# fields"): hexadecimal data, locally defined, single- and multi-byte character set switches, formatting commands
_HEXLIKE = r'X(?:[0-9A-Fa-f][0-9A-Fa-f])+|Z[0-9A-Za-z]+|C[0-9A-Fa-f]{4}|M[0-9A-Fa-f]{4}(?:[0-9A-Fa-f]{2})?'
OTHER_SEQUENCES = re.compile(r'(?:%s|\.(?:br|sp|fi|nf|in|ti|sk|ce) ?[+-]?[0-9]*)' % _HEXLIKE)


def other_sequences(esc):
    """the sequences that can be told from text when `esc` is the escape character: those it cannot be part of"""
    if esc.isalnum():
        return None
    if esc not in '.+- ':
        return OTHER_SEQUENCES
    pat = _HEXLIKE
    if esc != '.':
        signs = ''.join(c for c in '+-' if c != esc)
        pat += r'|\.(?:br|sp|fi|nf|in|ti|sk|ce)%s[%s]?[0-9]*' % ('' if esc == ' ' else ' ?', re.escape(signs))
    return re.compile('(?:%s)' % pat)


def tokenize_escaped(out, ec, letters=None):
    """Left-to-right partition of an encoded leaf into ordinary characters and complete escape
    sequences <esc><letter><esc>.  Returns (tokens, problems): problems lists unescaped delimiters
    and escape characters that belong to no sequence."""
    esc = ec['ESCAPE']
    letters = letters or esc_letters(ec)
    delims = {ec['FIELD']: 'FIELD', ec['COMPONENT']: 'COMPONENT', ec['SUBCOMPONENT']: 'SUBCOMPONENT',
              ec['REPETITION']: 'REPETITION'}
    if 'TRUNCATION' in ec:
        delims[ec['TRUNCATION']] = 'TRUNCATION'
    toks, problems = [], []
    i, n = 0, len(out)
    while i < n:
        ch = out[i]
        if ch == esc:
            if i + 2 < n and out[i + 1] in letters and out[i + 2] == esc:
                toks.append(out[i:i + 3])
                i += 3
                continue
            others = other_sequences(esc)
            m = others.match(out, i + 1) if others is not None else None
            if m and m.end() < n and out[m.end()] == esc and not any(c in delims or c == esc for c in m.group(0)):
                toks.append(out[i:m.end() + 1])
                i = m.end() + 1
                continue
            problems.append(('dangling-escape', i))
            toks.append(ch)
            i += 1
        elif ch in delims:
            problems.append(('unescaped-' + delims[ch], i))
            toks.append(ch)
            i += 1
        else:
            toks.append(ch)
            i += 1
    return toks, problems
