"""Cold-start worker of C19: run in a FRESH interpreter (python -m hv.coldstart <repo> <json case>).

Several threads make the first use of one HL7 version of the process at staggered moments (the version tables are imported
lazily on first use); afterwards the same calls are made again one by one, in the warm process.  Prints one JSON object:
{"threads": [...results...], "solo": [...results...]}.  The staggering only decides which overlaps of the lazy import are
reached; on a correct library every schedule gives the solo results, so the wall clock cannot cause a false alarm.
"""
import json
import sys
import threading
import time


def main():
    repo, case = sys.argv[1], json.loads(sys.argv[2])
    sys.path.insert(0, repo)
    sys.setswitchinterval(1e-5)
    v = case['v']
    text = case['text']

    def t_parse_message():
        from hl7apy.parser import parse_message
        return parse_message(text, validation_level=2, find_groups=True).to_er7()

    def t_parse_segment():
        from hl7apy.parser import parse_segment
        return parse_segment('PID|1||123^^^A||X^Y~Z', version=v).to_er7()

    def t_factory():
        from hl7apy.factories import datatype_factory
        return [datatype_factory(dt, val, version=v).to_er7() for dt, val in (('NM', '12.5'), ('ST', 'a'), ('DT', '20200101'))]

    def t_build():
        from hl7apy.core import Segment
        s = Segment('PID', version=v)
        s.pid_5 = 'A^B'
        s.pid_3.pid_3_1 = '1'
        return s.to_er7()

    def t_base():
        from hl7apy import load_library
        from hl7apy.utils import is_base_datatype
        lib = load_library(v)
        return [is_base_datatype('ST', v), is_base_datatype('CX', v), sorted(lib.get_base_datatypes())[:5], lib.find('PID', ('SEG',))[0]]

    def t_validate():
        from hl7apy.parser import parse_message
        m = parse_message(text, validation_level=2, find_groups=True)
        r = m.validate(return_errors=True)
        return [str(e) for e in r.errors][:5]

    def t_field():
        from hl7apy.core import Field
        f = Field('PID_5', version=v)
        f.value = 'A^B^C'
        return [f.to_er7(), f.datatype, [c.name for c in f.children]]

    table = {'parse_message': t_parse_message, 'parse_segment': t_parse_segment, 'factory': t_factory, 'build': t_build,
             'base': t_base, 'validate': t_validate, 'field': t_field}
    tasks = [(name, table[name], delay) for name, delay in case['tasks']]

    def guarded(fn):
        try:
            return ['ok', fn()]
        except BaseException as e:          # noqa: the exception type and text are the result
            return ['raised', type(e).__name__, str(e)[:200]]

    results = [None] * len(tasks)
    import hl7apy          # the package itself is imported before the threads start (only the version tables are cold)
    cold = ('hl7apy.v' + v.replace('.', '_')) not in sys.modules
    t0 = time.time()

    def worker(i, fn, delay):
        while time.time() - t0 < delay:
            time.sleep(0.0005)
        results[i] = guarded(fn)
    threads = [threading.Thread(target=worker, args=(i, fn, delay)) for i, (name, fn, delay) in enumerate(tasks)]
    for t in threads:
        t.start()
    for t in threads:
        t.join(120)
    hung = [tasks[i][0] for i, t in enumerate(threads) if t.is_alive()]
    solo = [guarded(fn) for name, fn, delay in tasks] if not hung else []
    sys.stdout.write(json.dumps({'threads': results, 'solo': solo, 'cold': cold, 'hung': hung}))
    sys.stdout.flush()
    if hung:
        import os
        os._exit(0)


if __name__ == '__main__':
    main()
