"""Coverage-guided fuzz worker (atheris / libFuzzer), run in its own process:

    PYTHONPATH=<verif>/.deps:<verif> /venv/bin/python -m hv.fuzzworker <target> <repo> <out.json> <corpus dir> -runs=N -seed=S ...

The semantic oracle of the property sits INSIDE the fuzz target (hv/props/<target>.fuzz_one(data) -> (violations, nontrivial, case));
a violation does not stop the campaign: the first input of every signature is kept, the signature is muted and the search goes
on (libFuzzer itself would stop at the first failure and hide what lies behind it).  Results are written incrementally
(atexit handlers do not run under libFuzzer): <out.json> always holds the state of the campaign so far.
"""
import importlib
import json
import os
import sys
import time


def main():
    target, repo, out_path, corpus = sys.argv[1:5]
    fuzz_args = sys.argv[5:]
    runs = max([int(a.split('=')[1]) for a in fuzz_args if a.startswith('-runs=')] or [10 ** 12])
    import atheris
    sys.path.insert(0, repo)
    with atheris.instrument_imports(include=['hl7apy.parser', 'hl7apy.core', 'hl7apy.validation', 'hl7apy.utils', 'hl7apy.factories',
                                             'hl7apy.base_datatypes', 'hl7apy.__init__', 'hl7apy'], exclude=['hl7apy.v2_']):
        import hl7apy
        from hl7apy import parser, core, validation     # noqa
    where = os.path.realpath(os.path.dirname(hl7apy.__file__))
    if not where.startswith(os.path.realpath(repo) + os.sep):
        sys.stderr.write('HARNESS-ERROR: hl7apy imported from %s\n' % where)
        os._exit(2)
    mod = importlib.import_module('hv.props.' + target)
    seen = set()
    state = {'execs': 0, 'nontrivial': 0, 'distinct_nontrivial': 0, 'violations': {}, 'samples': [], 'labels': {}, 't0': time.time(), 'done': False}

    def flush():
        tmp = out_path + '.tmp'
        with open(tmp, 'w') as f:
            json.dump({k: v for k, v in state.items() if k != 't0'}, f)
        os.replace(tmp, out_path)

    def one(data):
        state['execs'] += 1
        vs, nt, case, label = mod.fuzz_one(data)
        if nt:
            state['nontrivial'] += 1
            seen.add(hash(bytes(data)))
            state['distinct_nontrivial'] = len(seen)
            if len(state['samples']) < 6 and state['execs'] % 97 == 0:
                state['samples'].append(case)
        state['labels'][label] = state['labels'].get(label, 0) + 1
        for sig, detail in vs:
            ent = state['violations'].get(sig)
            if ent is None:
                state['violations'][sig] = {'case': case, 'detail': detail[:1500], 'count': 1}
                flush()
            else:
                ent['count'] += 1
        if state['execs'] % 500 == 0 or state['execs'] >= runs - 2:
            flush()

    flush()
    atheris.Setup([sys.argv[0]] + fuzz_args + [corpus], one)
    try:
        atheris.Fuzz()
    finally:
        state['done'] = True
        flush()


if __name__ == '__main__':
    main()
