"""Hypothesis strategies built from the version tables: delimiter sets, canonical leaf text per
datatype, field / component shapes, segment lines.  Everything is constructed (no filtering)."""
import string
import functools

from hypothesis import strategies as st

from hv import tables as T
from hv import refmodel as R

PUNCT = "!\"#$%&'()*+,-./:;<=>?@[\\]^_`{|}~"
WORD = string.ascii_letters + string.digits
NONASCII = u'éü中'


def default_ec(v, truncation=None):
    if T.vkey(v) >= [2, 7] and truncation is not False:
        return R.full(R.DEFAULT_EC_27)
    return R.full(R.DEFAULT_EC)


@st.composite
def delimiter_sets(draw, v, message_level=False, default_weight=3):
    """valid sets of 5 (v>=2.7: optionally 6) distinct punctuation characters.
    At message level '.' and '_' are withheld (MSH-12 '2.5' and MSH-9 'ADT_A01' must stay unsplit)."""
    new = T.vkey(v) >= [2, 7]
    if draw(st.integers(0, 9)) < default_weight:
        if new and draw(st.booleans()):
            return R.full(R.DEFAULT_EC_27)
        return R.full(R.DEFAULT_EC)
    pool = [c for c in PUNCT if not (message_level and c in '._')]
    chars = draw(st.lists(st.sampled_from(pool), min_size=6, max_size=6, unique=True))
    trunc = chars[5] if (new and draw(st.booleans())) else None
    return R.ec_dict(chars[0], chars[1], chars[2], chars[3], chars[4], trunc)


def eckey(ec):
    return tuple(sorted((k, v) for k, v in ec.items() if k not in ('SEGMENT', 'GROUP')))


@functools.lru_cache(None)
def _text(alpha, lo, hi):
    return st.text(alphabet=st.sampled_from(alpha), min_size=lo, max_size=hi)


@functools.lru_cache(None)
def _sampled(items):
    return st.sampled_from(items)


_INT = functools.lru_cache(None)(st.integers)


def active_chars(ec):
    return set(ec[k] for k in ('FIELD', 'COMPONENT', 'SUBCOMPONENT', 'REPETITION', 'ESCAPE', 'TRUNCATION') if k in ec)


def plain_alphabet(ec, extra_exclude=''):
    act = active_chars(ec)
    return [c for c in (WORD + PUNCT + NONASCII) if c not in act and c not in extra_exclude]


def escape_sequences(ec, v):
    esc = ec['ESCAPE']
    letters = 'HNFSTRE' + ('L' if T.vkey(v) >= [2, 7] else '')
    return [esc + l + esc for l in letters]


def vkey27(v):
    return T.vkey(v) >= [2, 7]


@functools.lru_cache(None)
def _alphabets(key, new):
    ec = dict(key)
    alpha = tuple(plain_alphabet(ec))
    esc = ec['ESCAPE']
    escs = tuple(esc + l + esc for l in ('HNFSTRE' + ('L' if new else '')))
    act = active_chars(ec)
    if not (esc.isalnum() or esc in '.+- '):
        # the standard's other sequences (hexadecimal, local, character set, formatting), where no active character is inside
        escs += tuple(esc + o + esc for o in ('X0D0A', 'X41', 'Z12', 'C2842', 'M2842AB', '.br', '.sp 2', '.in+4', '.fi')
                      if not act.intersection(o))
    return alpha, alpha + (' ',), escs


def _strip_edges(s, fallback='A'):
    s = s.strip(' ')
    return s if s else fallback


@st.composite
def textual_leaf(draw, v, ec, max_parts=3):
    """non-empty text without edge blanks, made of ordinary characters (incl. interior blanks, non-ASCII,
    punctuation that is not an active delimiter) and complete escape sequences"""
    alpha, alpha_sp, escs = _alphabets(eckey(ec), vkey27(v))
    n = draw(_INT(1, max_parts))
    parts = []
    for _ in range(n):
        k = draw(_INT(0, 9))
        if k < 6:
            parts.append(draw(_text(alpha, 1, 5)))
        elif k < 8:
            parts.append(draw(_sampled(escs)))
        else:
            parts.append(draw(_text(alpha_sp, 1, 6)))
    return _strip_edges(''.join(parts))


_PLAIN_INT = st.one_of(st.just('0'), st.integers(1, 10 ** 9).map(str), st.integers(1, 9999).map(str))


@st.composite
def plain_decimal(draw, max_frac=9, ec=None):
    act = active_chars(ec) if ec else ()
    if '.' not in act and max_frac >= 9 and draw(st.integers(0, 7)) == 0:
        # small magnitudes: many leading zeros after the point
        return '0.' + '0' * draw(st.integers(3, 9)) + draw(st.sampled_from('0123456789'))
    s = draw(_PLAIN_INT)
    if '.' not in act and draw(st.booleans()):
        s += '.' + draw(st.text(alphabet='0123456789', min_size=1, max_size=max_frac))
    if '-' not in act and draw(st.integers(0, 4)) == 0:
        s = '-' + s
    return s


@st.composite
def non_numeric_text(draw, ec):
    """text that no numeric/date parser accepts: contains a letter that occurs in none of the spellings
    Decimal()/int()/strptime understand (no e, n, a, i, f, t, y, s)"""
    act = active_chars(ec)
    alpha = [c for c in 'xqzXQZ0123456789.-' if c not in act]
    must = [c for c in 'xqzXQZ' if c not in act]
    a = draw(st.text(alphabet=st.sampled_from(alpha), max_size=4))
    b = draw(st.text(alphabet=st.sampled_from(alpha), max_size=4))
    return a + draw(st.sampled_from(must)) + b


_DIM = [31, 28, 31, 30, 31, 30, 31, 31, 30, 31, 30, 31]


def _leap(y):
    return y % 4 == 0 and (y % 100 != 0 or y % 400 == 0)


@st.composite
def hl7_date(draw, precision=None):
    y = draw(st.integers(1000, 9999))
    p = precision if precision is not None else draw(st.integers(1, 3))
    s = '%04d' % y
    if p >= 2:
        m = draw(st.integers(1, 12))
        s += '%02d' % m
        if p >= 3:
            dim = 29 if (m == 2 and _leap(y)) else _DIM[m - 1]
            s += '%02d' % draw(st.integers(1, dim))
    return s


@st.composite
def hl7_offset(draw, ec=None):
    act = active_chars(ec) if ec else ()
    signs = [c for c in '+-' if c not in act]
    if not signs:
        return ''
    if draw(st.sampled_from(signs)) == '+':
        return '+%02d%02d' % (draw(st.integers(0, 13)), draw(st.integers(0, 59)))
    return '-%02d%02d' % (draw(st.integers(0, 11)), draw(st.integers(0, 59)))


@st.composite
def hl7_time(draw, with_offset=True, ec=None):
    act = active_chars(ec) if ec else ()
    p = draw(st.integers(1, 3 if '.' in act else 4))
    s = '%02d' % draw(st.integers(0, 23))
    if p >= 2:
        s += '%02d' % draw(st.integers(0, 59))
    if p >= 3:
        s += '%02d' % draw(st.integers(0, 59))
    if p >= 4:
        s += '.' + draw(st.text(alphabet='0123456789', min_size=1, max_size=4))
    if with_offset and draw(st.integers(0, 2)) == 0:
        s += draw(hl7_offset(ec))
    return s


@st.composite
def hl7_datetime(draw, ec=None):
    if draw(st.booleans()):
        s = draw(hl7_date())
        if draw(st.integers(0, 3)) == 0:
            s += draw(hl7_offset(ec))
        return s
    return draw(hl7_date(3)) + draw(hl7_time(ec=ec))


def leaf(v, dt, ec):
    """canonical leaf text for a position of base datatype dt (C01 sense)"""
    return _leaf(vkey27(v), v if False else ('2.7' if vkey27(v) else '2.5'), dt, eckey(ec))


@functools.lru_cache(None)
def _leaf(new, v, dt, key):
    ec = dict(key)
    if dt == 'NM':
        return st.one_of(plain_decimal(ec=ec), plain_decimal(ec=ec), non_numeric_text(ec))
    if dt == 'SI':
        return st.one_of(_PLAIN_INT, _PLAIN_INT, non_numeric_text(ec))
    if dt == 'DT':
        return st.one_of(hl7_date(), hl7_date(), non_numeric_text(ec))
    if dt == 'TM':
        return st.one_of(hl7_time(ec=ec), hl7_time(ec=ec), non_numeric_text(ec), _near_times(ec, ''))
    if dt == 'DTM':
        return st.one_of(hl7_datetime(ec), hl7_datetime(ec), non_numeric_text(ec), _near_times(ec, '20200229'))
    return textual_leaf(v, ec)


def _near_times(ec, date):
    """times that are almost of the datatype (five or six decimals of a second, minutes 60 ...): TOLERANT keeps them as text"""
    act = active_chars(ec)
    pool = [date + t for t in ('120000.12345', '120000.123456', '235959.99999', '120000.12345+0100', '126000', '240000', '1200.5')]
    pool = [t for t in pool if not (set(t) & act)] or ['x']
    return st.sampled_from(pool)


def valid_leaf(v, dt, ec):
    """leaf text that is valid for dt (C04/C05 'conforming' sense), short enough for every max length"""
    return _valid_leaf('2.7' if vkey27(v) else '2.5', dt, eckey(ec))


@functools.lru_cache(None)
def _valid_leaf(v, dt, key):
    ec = dict(key)
    if dt == 'NM':
        return plain_decimal(max_frac=4, ec=ec)
    if dt == 'SI':
        return st.integers(0, 9999).map(str)
    if dt == 'DT':
        return hl7_date()
    if dt == 'TM':
        return hl7_time(ec=ec)
    if dt == 'DTM':
        return hl7_datetime(ec)
    if dt == 'TN':
        act = active_chars(ec)
        return st.sampled_from([t for t in ['555-1234', '(12)345-6789', '12 (999)555-1234X12', '5551234']
                                if not (set(t) & act)])
    alpha = tuple(plain_alphabet(ec))
    return st.text(alphabet=st.sampled_from(alpha), min_size=1, max_size=8).map(lambda s: _strip_edges(s))


# ---------------------------------------------------------------------------------------------
# shapes

@st.composite
def _sparse(draw, n, p_fill=4):
    """sorted non-empty subset of range(n) (indices to fill); the last chosen index is the last non-empty one"""
    last = draw(_INT(0, n - 1))
    d10 = _INT(0, 9)
    chosen = [i for i in range(last) if draw(d10) < p_fill]
    return chosen + [last]


@st.composite
def component_text(draw, v, ref, ec, leaf_fn=leaf):
    """text of one component with reference `ref` (sub-component level)"""
    ch = T.ref_children(v, ref)
    if not ch:
        return draw(leaf_fn(v, ref[2], ec))
    idx = draw(_sparse(len(ch)))
    out = [''] * (idx[-1] + 1)
    for i in idx:
        sref = ch[i][2]
        sdt = sref[2]
        out[i] = draw(leaf_fn(v, sdt if T.is_base(v, sdt) else 'ST', ec))
    return ec['SUBCOMPONENT'].join(out)


@st.composite
def repetition_text(draw, v, ref, ec, leaf_fn=leaf):
    """text of one repetition of a field with reference `ref`"""
    dt = ref[2]
    ch = T.ref_children(v, ref)
    if not ch:
        if dt == 'varies' and draw(st.integers(0, 1)) == 0:
            # (a varies field may carry any value, a long one too: XCN / XAD values have more than nine components)
            n = draw(st.sampled_from([2, 2, 3, 3, 10, 11, 12, 23]))
            parts = [draw(textual_leaf(v, ec, 1)) if (i == n - 1 or draw(st.booleans())) else '' for i in range(n)]
            return ec['COMPONENT'].join(parts)
        return draw(leaf_fn(v, dt, ec))
    idx = draw(_sparse(len(ch)))
    out = [''] * (idx[-1] + 1)
    for i in idx:
        out[i] = draw(component_text(v, ch[i][2], ec, leaf_fn))
    return ec['COMPONENT'].join(out)


@st.composite
def field_text(draw, v, ref, ec, leaf_fn=leaf, max_reps=3):
    k = draw(st.integers(0, 9))
    n = 1 if (k < 7 or max_reps < 2) else draw(st.integers(2, max_reps))
    reps = [draw(repetition_text(v, ref, ec, leaf_fn)) for _ in range(n)]
    if n == 3 and draw(st.integers(0, 3)) == 0:
        reps[1] = ''            # an empty middle repetition
    return ec['REPETITION'].join(reps)


@st.composite
def segment_line(draw, v, s, ec, leaf_fn=leaf, p_fill=3, skip=()):
    """one canonical segment line for segment s of version v (never MSH)"""
    rows = [r for r in T.seg_fields(v, s)]
    last_row = draw(st.integers(0, len(rows) - 1))
    fields = {}
    for k, (name, i, ref, card) in enumerate(rows[:last_row + 1]):
        if i in skip:
            continue
        if k == last_row or draw(st.integers(0, 9)) < p_fill:
            fields[i] = draw(field_text(v, ref, ec, leaf_fn))
    if not fields:
        name, i, ref, card = rows[last_row]
        fields[i] = draw(field_text(v, ref, ec, leaf_fn))
    return R.enc_segment(s, fields, ec)


def msh9_text(v, name, ec):
    """MSH-9 spelled for the version's datatype"""
    parts = name.split('_')
    n = T.msh9_components(v)
    if len(parts) >= 2:
        comps = [parts[0], parts[1], name]
    else:
        comps = [name, 'A01', name]      # one-part structure ids (ACK): any trigger event, structure in MSH-9.3
    comps = comps[:max(n, 1)] if n < 3 else comps
    return ec['COMPONENT'].join(R.trim(comps, ''))


@st.composite
def msh_line(draw, v, name, ec, leaf_fn=leaf, rich=True):
    """MSH line declaring structure `name` and version v with delimiter set ec"""
    fields = {}
    if rich:
        for (fname, i, ref, card) in T.seg_fields(v, 'MSH'):
            if i in (1, 2, 9, 12):
                continue
            if i in (3, 4, 5, 6, 10, 11) or draw(st.integers(0, 9)) < 2:
                if i == 7:
                    fields[i] = draw(hl7_date(3))
                else:
                    fields[i] = draw(field_text(v, ref, ec, leaf_fn, max_reps=1 if i < 13 else 2))
    fields[9] = msh9_text(v, name, ec)
    fields[12] = v
    vals = [fields.get(i, '') for i in range(3, max(fields) + 1)]
    return 'MSH' + ec['FIELD'] + R.msh2(ec) + ec['FIELD'] + ec['FIELD'].join(R.trim(vals, ''))
