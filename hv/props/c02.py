"""C02 - every defined position is encoded at, and parsed from, its own index."""
import random

from hv import tables as T
from hv import lit
from hv.common import h

ID = 'C02'
LEVEL = 'exploration'
EXHAUSTIVE = {'quick': True, 'thorough': True}
RULE = ('exhaustive table sweep: every (version, segment, field index) row, every (version, complex datatype, '
        'component j[, sub-component k]) row, instantiation of every declared segment/field/datatype, and open-ended '
        '(Z-/varies-terminated) segments for indices 1..60 plus seeded indices up to 1500, and pairs of indices assigned in ascending and descending order; each position is populated by '
        'name with a literal valid for its leaf datatype, the encoding is compared with a reference text built from '
        'separator counts only, and that text is parsed back. Non-trivial = a position with at least one separator to '
        'count (i>1 or j>1 or k>1) or an instantiation; distinct by (version, element, i, j, k, value) - distinct by '
        'construction because the domain is enumerated.')
ASSUMPTIONS = [
    'the version tables as loaded (load_library) are the definition of "defined position"',
    'values are valid literals for the addressed leaf datatype; TOLERANT validation; default delimiters',
    'pseudo segments ANYHL7SEGMENT/ANYZSEGMENT are not instantiable by design and are outside the domain',
]

TOL = 2


def _imports():
    from hl7apy.core import Segment, Field, Component, SubComponent
    from hl7apy import parser
    return Segment, Field, Component, SubComponent, parser


def _exc(e):
    return '%s: %s' % (type(e).__name__, str(e)[:200])


# ------------------------------------------------------------------------------------------------
# plain check functions (also used by --replay)

def check_field(v, s, name, i, val):
    """field position i of segment s"""
    Segment, Field, Component, SubComponent, P = _imports()
    out = []
    sig_pos = 'field-encoded-at-wrong-index:%s:%s' % (v, s)
    try:
        seg = Segment(s, version=v, validation_level=TOL)
    except Exception as e:
        return [('uninstantiable-segment:%s:%s' % (v, s), _exc(e))]
    try:
        if s == 'MSH' and i in (1, 2):
            seg.msh_1 = '|'
            seg.msh_2 = '^~\\&'
            exp = 'MSH|^~\\&'
            want_names = ['MSH_1', 'MSH_2']
        else:
            setattr(seg, name, val)
            nsep = i - 1 if s == 'MSH' else i
            exp = s + '|' * nsep + val
            want_names = ['MSH_1', name] if s == 'MSH' else [name]
        got = seg.to_er7()
    except Exception as e:
        return [('field-unusable:%s:%s' % (v, name), _exc(e))]
    if got != exp:
        out.append((sig_pos, 'set %s=%r: encoded %r, expected %r' % (name, val, got, exp)))
    try:
        p = P.parse_segment(exp, version=v, validation_level=TOL)
        names = [c.name for c in p.children]
        back = p.to_er7()
        if names != want_names:
            out.append(('field-parsed-under-wrong-name:%s:%s' % (v, s),
                        'parse %r: children %r, expected %r' % (exp, names, want_names)))
        elif not (s == 'MSH' and i in (1, 2)):
            f = getattr(p, name)[0]
            if f.to_er7() != val:
                out.append(('field-value-lost:%s:%s' % (v, s), 'parse %r: %s reads %r' % (exp, name, f.to_er7())))
        if back != exp and got == exp:
            out.append((sig_pos, 'parse %r re-encodes as %r' % (exp, back)))
    except Exception as e:
        out.append(('field-unparsable:%s:%s' % (v, name), 'parse_segment(%r): %s' % (exp, _exc(e))))
    return out


def check_component(v, D, j, cname, k, sname, val, via):
    """component j (and sub-component k) of complex datatype D, reached through `via`:
       'zfield'  : Field('ZZZ_1', datatype=D); 'unnamed': Field(datatype=D); 'varies-field': Field('OBX_5', datatype=D);
       'setter'  : Field('OBX_5').datatype = D
       'comp'    : Component(cname) (k only)"""
    Segment, Field, Component, SubComponent, P = _imports()
    out = []
    exp = '^' * (j - 1) + ('&' * (k - 1) if k else '') + val
    sig = 'component-position:%s:%s' % (v, D)
    try:
        if via in ('zfield', 'unnamed', 'varies-field', 'setter'):
            if via == 'zfield':
                f = Field('ZZZ_1', datatype=D, version=v, validation_level=TOL)
            elif via == 'unnamed':
                f = Field(datatype=D, version=v, validation_level=TOL)          # a field without a name, of that datatype
            elif via == 'varies-field':
                f = Field('OBX_5', datatype=D, version=v, validation_level=TOL)  # a field of varying type given its datatype
            else:
                f = Field('OBX_5', version=v, validation_level=TOL)
                f.datatype = D                                                    # ... or given it afterwards
            if k:
                setattr(getattr(f, cname), sname, val)
            else:
                setattr(f, cname, val)
            got = f.to_er7()
        else:
            c = Component(cname, version=v, validation_level=TOL)
            setattr(c, sname, val)
            got = '^' * (j - 1) + c.to_er7()
    except Exception as e:
        return [('component-unusable:%s:%s' % (v, cname), '%s via %s: %s' % ((D, j, k), via, _exc(e)))]
    if got != exp:
        out.append((sig, '%s.%s%s=%r via %s: encoded %r, expected %r' % (D, cname, '.' + sname if k else '', val, via, got, exp)))
    try:
        comps = P.parse_components(exp, D, v, None, TOL, None)
        names = [c.name for c in comps]
        if names != [cname]:
            out.append((sig, 'parse_components(%r, %s): %r, expected [%r]' % (exp, D, names, cname)))
        else:
            c = comps[0]
            subs = [x.name for x in c.children]
            if k:
                if subs != [sname]:
                    out.append((sig, 'parse_components(%r, %s): sub-components %r, expected [%r]' % (exp, D, subs, sname)))
            elif len(subs) != 1:
                out.append((sig, 'parse_components(%r, %s): %d sub-components, expected 1' % (exp, D, len(subs))))
            if c.to_er7() != exp[j - 1:]:
                out.append((sig, 'parse_components(%r, %s)[0].to_er7() == %r' % (exp, D, c.to_er7())))
    except Exception as e:
        out.append(('component-unparsable:%s:%s' % (v, cname), 'parse_components(%r,%s): %s' % (exp, D, _exc(e))))
    return out


def check_in_segment(v, s, fname, i, cname, j, sname, k, val):
    """component j / sub-component k of field i, reached by name from the segment"""
    Segment, Field, Component, SubComponent, P = _imports()
    out = []
    nsep = i - 1 if s == 'MSH' else i
    exp = s + '|' * nsep + '^' * (j - 1) + ('&' * (k - 1) if k else '') + val
    sig = 'nested-position:%s:%s' % (v, s)
    try:
        seg = Segment(s, version=v, validation_level=TOL)
        fp = getattr(seg, fname)
        if k:
            setattr(getattr(fp, cname), sname, val)
        else:
            setattr(fp, cname, val)
        got = seg.to_er7()
    except Exception as e:
        return [('nested-unusable:%s:%s' % (v, fname), '%s: %s' % ((cname, sname), _exc(e)))]
    if got != exp:
        out.append((sig, '%s.%s%s=%r: encoded %r, expected %r' % (fname, cname, '.' + sname if k else '', val, got, exp)))
    try:
        p = P.parse_segment(exp, version=v, validation_level=TOL)
        want = ['MSH_1', fname] if s == 'MSH' else [fname]
        names = [c.name for c in p.children]
        if names != want:
            out.append((sig, 'parse %r: fields %r' % (exp, names)))
        else:
            f = p.children[-1]
            cn = [c.name for c in f.children]
            if cn != [cname]:
                out.append((sig, 'parse %r: components %r, expected [%r]' % (exp, cn, cname)))
            elif k and [x.name for x in f.children[0].children] != [sname]:
                out.append((sig, 'parse %r: sub-components %r, expected [%r]' % (
                    exp, [x.name for x in f.children[0].children], sname)))
        if p.to_er7() != exp and got == exp:
            out.append((sig, 'parse %r re-encodes as %r' % (exp, p.to_er7())))
    except Exception as e:
        out.append(('nested-unparsable:%s:%s' % (v, fname), 'parse_segment(%r): %s' % (exp, _exc(e))))
    return out


def check_open(v, s, i, val):
    """index i of an open-ended segment (Z-segment or varies-terminated)"""
    Segment, Field, Component, SubComponent, P = _imports()
    out = []
    name = '%s_%d' % (s, i)
    exp = s + '|' * i + val
    sig = 'open-ended-position:%s:%s' % ('Z' if s.startswith('Z') else v, s if not s.startswith('Z') else 'zseg')
    try:
        seg = Segment(s, version=v, validation_level=TOL)
        setattr(seg, name, val)
        got = seg.to_er7()
    except Exception as e:
        return [('open-ended-unusable:%s:%s' % (v, s), '%s=%r: %s' % (name, val, _exc(e)))]
    if got != exp:
        out.append((sig, 'set %s=%r: encoded %r, expected %r' % (name, val, got[:80], exp[:80])))
    try:
        p = P.parse_segment(exp, version=v, validation_level=TOL)
        names = [c.name for c in p.children]
        if names != [name]:
            out.append((sig, 'parse %r...: children %r' % (exp[:40], names)))
        elif p.children[0].to_er7() != val:
            out.append((sig, 'parse: %s reads %r' % (name, p.children[0].to_er7())))
        if p.to_er7() != exp:
            out.append((sig, 'parse %r... re-encodes as %r...' % (exp[:40], p.to_er7()[:60])))
    except Exception as e:
        out.append(('open-ended-unparsable:%s:%s' % (v, s), _exc(e)))
    return out


def check_open_pair(v, s, i, j, order):
    """two indices of an open-ended segment, assigned in the given order: each value at its own index"""
    Segment, Field, Component, SubComponent, P = _imports()
    lo, hi = min(i, j), max(i, j)
    exp = s + '|' * lo + 'Lo' + '|' * (hi - lo) + 'Hi'
    sig = 'open-ended-pair:%s:%s' % ('Z' if s.startswith('Z') else v, 'zseg' if s.startswith('Z') else s)
    try:
        seg = Segment(s, version=v, validation_level=TOL)
        for k in ((hi, lo) if order == 'descending' else (lo, hi)):
            setattr(seg, '%s_%d' % (s, k), 'Hi' if k == hi else 'Lo')
        got = seg.to_er7()
    except Exception as e:
        return [('open-ended-unusable:%s:%s' % (v, s), '%s: %s' % ((i, j, order), _exc(e)))]
    if got != exp:
        return [(sig, 'indices %d and %d set in %s order: encoded %r, expected %r' % (lo, hi, order, got[:80], exp[:80]))]
    # and starting from a parsed text
    try:
        p = P.parse_segment(exp, version=v, validation_level=TOL)
        setattr(p, '%s_%d' % (s, lo + 1 if hi > lo + 1 else hi + 1), 'Mid')
        names = sorted(T.idx_of(c.name) for c in p.children)
        vals = dict((T.idx_of(c.name), c.to_er7()) for c in p.children)
        back = P.parse_segment(p.to_er7(), version=v, validation_level=TOL)
        vals2 = dict((T.idx_of(c.name), c.to_er7()) for c in back.children)
        if vals != vals2 or len(names) != 3:
            return [(sig, 'parsed %r, then a third index set: %r re-parses as %r' % (exp[:60], vals, vals2))]
    except Exception as e:
        return [('open-ended-unusable:%s:%s' % (v, s), 'pair after parse: %s' % _exc(e))]
    return []


def check_instantiate(v, kind, name):
    Segment, Field, Component, SubComponent, P = _imports()
    from hl7apy.factories import datatype_factory
    try:
        if kind == 'segment':
            x = Segment(name, version=v, validation_level=TOL)
            x.to_er7()
            Segment(name, version=v, validation_level=1).to_er7()
        elif kind == 'field':
            f = Field(name, version=v, validation_level=TOL)
            if name not in ('MSH_1', 'MSH_2'):   # an *unpopulated* MSH-1/MSH-2 has no encoding (C15's business)
                f.to_er7()
        elif kind == 'component':
            Component(name, version=v, validation_level=TOL).to_er7()
            ref = T.lib(v).DATATYPES[name]
            if ref[0] == 'leaf' and T.is_base(v, ref[2]):   # a sub-component cannot be complex (by design)
                SubComponent(name, version=v, validation_level=TOL).to_er7()
        elif kind == 'datatype':
            f = Field('ZZZ_1', datatype=name, version=v, validation_level=TOL)
            f.to_er7()
            Component(datatype=name, version=v, validation_level=TOL).to_er7()
        elif kind == 'base':
            for lv in (1, 2):
                val = lit.valid(name)
                o = datatype_factory(name, val, v, lv)
                if o.to_er7() != val:
                    return [('base-datatype-encoding:%s:%s' % (v, name), '%r -> %r' % (val, o.to_er7()))]
                sc = SubComponent(datatype=name, value=val, version=v, validation_level=lv)
                if sc.to_er7() != val:
                    return [('base-datatype-encoding:%s:%s' % (v, name), 'SubComponent %r -> %r' % (val, sc.to_er7()))]
    except Exception as e:
        return [('uninstantiable-%s:%s:%s' % (kind, v, name), _exc(e))]
    return []


# ------------------------------------------------------------------------------------------------

def replay(case, acc):
    k = case['kind']
    if k == 'field':
        return check_field(case['v'], case['s'], case['name'], case['i'], case['val'])
    if k == 'component':
        return check_component(case['v'], case['D'], case['j'], case['cname'], case['k'], case['sname'],
                               case['val'], case['via'])
    if k == 'nested':
        return check_in_segment(case['v'], case['s'], case['fname'], case['i'], case['cname'], case['j'],
                                case['sname'], case['k'], case['val'])
    if k == 'open':
        return check_open(case['v'], case['s'], case['i'], case['val'])
    if k == 'open2':
        return check_open_pair(case['v'], case['s'], case['i'], case['j'], case['order'])
    if k == 'inst':
        return check_instantiate(case['v'], case['what'], case['name'])
    raise ValueError(k)


def _do(acc, case, nontrivial):
    vs = replay(case, acc)
    acc.case(None, nontrivial, sample=case, label=case['kind'], enumerated=True)
    for sig, detail in vs:
        acc.violation(sig, case, detail)


def open_segments(v):
    out = []
    for s in T.segments(v):
        rows = T.seg_fields(v, s)
        if rows and rows[-1][2][2] == 'varies':
            out.append(s)
    return out


def run_shard(shard, acc):
    if shard['kind'] == 'fields-all-versions':
        order = T.VERSIONS if shard['k'] % 2 == 0 else T.VERSIONS[::-1]
        for v in order:
            segs = list(T.segments(v, include_defective=True))[shard['k']::shard['of']]
            _run_shard(dict(shard, kind='fields', v=v, names=segs), acc)
        return
    _run_shard(shard, acc)


def _run_shard(shard, acc):
    kind, v, names, nvals, seed = shard['kind'], shard['v'], shard['names'], shard['nvals'], shard['seed']
    rnd = random.Random(seed)
    if kind == 'fields':
        for s in names:
            if T.segment_defect(v, s):
                _do(acc, {'kind': 'inst', 'v': v, 'what': 'segment', 'name': s}, True)
                continue
            for (name, i, ref, card) in T.seg_fields(v, s):
                if T.field_row_defect(v, s, (name, i, ref, card)):
                    acc.violation('bad-field-row:%s:%s' % (v, name), {'kind': 'row', 'v': v, 's': s, 'name': name},
                                  T.field_row_defect(v, s, (name, i, ref, card)))
                    acc.case(None, True, enumerated=True, label='bad-row')
                    continue
                dt = lit.first_leaf_dt(T, v, ref)
                for n in range(nvals):
                    _do(acc, {'kind': 'field', 'v': v, 's': s, 'name': name, 'i': i, 'val': lit.valid(dt, n)}, i > 1)
                # one (thorough: every) nested position of a complex field, by name from the segment
                ch = T.ref_children(v, ref)
                if ch:
                    picks = ch if shard['all_nested'] else [ch[rnd.randrange(len(ch))]]
                    for (cname, j, cref, ccard) in picks:
                        sub = T.ref_children(v, cref)
                        if sub:
                            (sname, k, sref, scard) = sub[rnd.randrange(len(sub))]
                            val = lit.valid(lit.first_leaf_dt(T, v, sref), 0)
                            _do(acc, {'kind': 'nested', 'v': v, 's': s, 'fname': name, 'i': i, 'cname': cname, 'j': j,
                                      'sname': sname, 'k': k, 'val': val}, True)
                        else:
                            val = lit.valid(lit.first_leaf_dt(T, v, cref), 0)
                            _do(acc, {'kind': 'nested', 'v': v, 's': s, 'fname': name, 'i': i, 'cname': cname, 'j': j,
                                      'sname': None, 'k': 0, 'val': val}, True)
    elif kind == 'datatypes':
        for D in names:
            ch = T.dt_children(v, D)
            _do(acc, {'kind': 'inst', 'v': v, 'what': 'datatype', 'name': D}, True)
            for (cname, j, cref, ccard) in ch:
                sub = T.ref_children(v, cref)
                for n in range(nvals):
                    val = lit.valid(lit.first_leaf_dt(T, v, cref), n)
                    _do(acc, {'kind': 'component', 'v': v, 'D': D, 'j': j, 'cname': cname, 'k': 0, 'sname': None,
                              'val': val, 'via': 'zfield'}, j > 1)
                    if n == 0:
                        _do(acc, {'kind': 'component', 'v': v, 'D': D, 'j': j, 'cname': cname, 'k': 0, 'sname': None,
                                  'val': val, 'via': ('unnamed', 'varies-field', 'setter')[j % 3]}, j > 1)
                if sub:
                    for (sname, k, sref, scard) in sub:
                        val = lit.valid(lit.first_leaf_dt(T, v, sref), 0)
                        for via in ('zfield', 'comp'):
                            _do(acc, {'kind': 'component', 'v': v, 'D': D, 'j': j, 'cname': cname, 'k': k,
                                      'sname': sname, 'val': val, 'via': via}, True)
    elif kind == 'inst':
        L = T.lib(v)
        for s in sorted(L.SEGMENTS):
            if s not in T.PSEUDO_SEGMENTS:
                _do(acc, {'kind': 'inst', 'v': v, 'what': 'segment', 'name': s}, True)
        for f in sorted(L.FIELDS):
            _do(acc, {'kind': 'inst', 'v': v, 'what': 'field', 'name': f}, True)
        for c in sorted(L.DATATYPES):
            _do(acc, {'kind': 'inst', 'v': v, 'what': 'component', 'name': c}, True)
        for b in sorted(L.BASE_DATATYPES):
            _do(acc, {'kind': 'inst', 'v': v, 'what': 'base', 'name': b}, True)
    elif kind == 'open':
        zs = ['ZXX', 'ZA1', 'Z9Z', 'Z0X', 'ZZ0'] + open_segments(v)
        hi = shard['hi']
        for s in zs:
            last = 0
            if not s.startswith('Z'):
                last = T.seg_fields(v, s)[-1][1]
            idxs = list(range(last + 1, last + 61)) + sorted(rnd.sample(range(last + 61, 1501), hi))
            for i in idxs:
                _do(acc, {'kind': 'open', 'v': v, 's': s, 'i': i, 'val': 'X1'}, True)
            for n in range(hi):
                i, j = rnd.sample(range(last + 1, last + 40), 2)
                _do(acc, {'kind': 'open2', 'v': v, 's': s, 'i': i, 'j': j, 'order': 'descending' if n % 2 else 'ascending'}, True)


def plan(tier, seed):
    shards = []
    thorough = tier == 'thorough'
    nvals = 2 if thorough else 1
    n = 32 if thorough else 12
    for k in range(n):
        shards.append({'kind': 'fields-all-versions', 'k': k, 'of': n, 'nvals': nvals, 'seed': seed * 1000 + k, 'all_nested': thorough})
    for v in T.VERSIONS:
        dts = list(T.complex_datatypes(v))
        shards.append({'kind': 'datatypes', 'v': v, 'names': dts, 'nvals': nvals, 'seed': seed, 'all_nested': False})
        shards.append({'kind': 'inst', 'v': v, 'names': [], 'nvals': 1, 'seed': seed, 'all_nested': False})
        shards.append({'kind': 'open', 'v': v, 'names': [], 'nvals': 1, 'seed': seed * 77 + 1,
                       'all_nested': False, 'hi': 40 if thorough else 8})
    return shards

TECHNIQUE = 'exhaustive table-driven enumeration of positions against a separator-counting reference encoder + parse-back'
LEVEL_TEXT = ('exploration, exhaustive over the finite table domain: every field/component/sub-component position the 12 '
              'version tables define is populated, encoded, compared with a reference text and parsed back on every run; '
              'open-ended segments are enumerated to index 60 and sampled to 1500')
LEVEL_NOTE = ('trusted: the harness reading of the tables (hv/tables.py) and the 10-line reference encoding; one literal '
              '(thorough: two) per position, default delimiters, TOLERANT level')
