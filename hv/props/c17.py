"""C17 - explicit arguments override process-wide defaults; changing defaults never alters existing elements."""
from hypothesis import strategies as st

from hv import tables as T
from hv import refmodel as R
from hv import strategies as S
from hv import lit
from hv.common import hyp_collect, h
from hv.props import c01, c03, c05, c07

ID = 'C17'
LEVEL = 'exploration'
EXHAUSTIVE = {}
RULE = ('differential testing over process-wide configurations: Hypothesis draws a two-phase closure that is fully explicit by the '
        'API\'s own means - parse_message(text carrying MSH-1/2/9/12, validation_level=L); parse_segment / parse_field / '
        'parse_component(..., version=V, encoding_chars=E, validation_level=L) observed with to_er7(E); Message(M, version=V, '
        'validation_level=L, encoding_chars=E) populated through traversal / add_*; stand-alone Segment / Field / Component / SubComponent '
        'constructors with add_* calls; datatype_factory(dt, value, V, L) with valid, invalid and over-long values - and a configuration '
        'B = (default version in 12 versions, default level in 2, default delimiter set in {standard, a disjoint custom set, a custom set of characters that occur in ordinary content}). The '
        'closure is run (i) entirely under the library defaults, (ii) entirely under B, (iii) phase 1 under the library defaults and '
        'phase 2 (further operations and all observations) after switching to B. Oracle: the three outcomes - observed values or '
        'exception type and text - are identical. Defaults are restored after every case. Non-trivial = B differs from the closure\'s '
        'own explicit arguments in at least one dimension; distinct by (closure, configuration).')
ASSUMPTIONS = [
    'calls that cannot receive an argument and have no parent to inherit from (to_er7() without argument on a parent-less element, a '
    'message text without MSH-12, string assignment to a parent-less segment) are default-dependent by documentation and not in the corpus',
]
TECHNIQUE = 'Hypothesis differential testing of explicit-argument closures across process-wide default configurations'
LEVEL_TEXT = 'exploration: sampled closures x sampled configurations (12 default versions x 2 levels x 4 delimiter sets)'
LEVEL_NOTE = 'trusted: the closure corpus really is explicit (audited list in this module); module globals of hl7apy are saved/restored around each case'

CUSTOM = {'FIELD': '!', 'COMPONENT': '$', 'SUBCOMPONENT': '%', 'REPETITION': '*', 'ESCAPE': '@'}
# a second set whose characters occur in ordinary content (version numbers, decimals, times): legal, unusual
CUSTOM2 = {'FIELD': '#', 'COMPONENT': '.', 'SUBCOMPONENT': ':', 'REPETITION': '+', 'ESCAPE': '?'}
# the standard characters plus the optional truncation key (a key that explicit five-key sets do not have)
CUSTOM3 = {'FIELD': '|', 'COMPONENT': '^', 'SUBCOMPONENT': '&', 'REPETITION': '~', 'ESCAPE': '\\', 'TRUNCATION': '#'}


ANY_DELIMITER = set(''.join(''.join(d.values()) for d in (CUSTOM, CUSTOM2, CUSTOM3)))


_PRISTINE = {}       # dictionaries of the library taken before any default was touched: name -> (object, copy of its content)


def _pristine():
    if not _PRISTINE:
        import hl7apy
        from hl7apy import consts
        for name, obj in (('consts.DEFAULT_ENCODING_CHARS', consts.DEFAULT_ENCODING_CHARS),
                          ('consts.DEFAULT_ENCODING_CHARS_27', getattr(consts, 'DEFAULT_ENCODING_CHARS_27', None)),
                          ('get_default_encoding_chars() taken before any change', hl7apy.get_default_encoding_chars())):
            if isinstance(obj, dict):
                _PRISTINE[name] = (obj, dict(obj))
    return _PRISTINE


def explicit_ec(case):
    """the delimiter set passed explicitly: the harness's own dictionary, or - same content - one of the library's own objects"""
    src = case.get('ec_source', 'own')
    if src == 'constant':
        return _pristine()['consts.DEFAULT_ENCODING_CHARS'][0]
    if src == 'captured':
        return _pristine()['get_default_encoding_chars() taken before any change'][0]
    return case.get('ec')


class Defaults(object):
    def __enter__(self):
        import hl7apy
        self.h = hl7apy
        _pristine()
        self.saved = (hl7apy._DEFAULT_ENCODING_CHARS, hl7apy._DEFAULT_ENCODING_CHARS_27, hl7apy._DEFAULT_VERSION,
                      hl7apy._DEFAULT_VALIDATION_LEVEL)
        self.damaged = []
        return self

    def heal(self):
        """a library dictionary whose CONTENT was changed is put right again (and remembered), so that one case cannot
        contaminate the next"""
        for name, (obj, copy) in _pristine().items():
            if {k: v for k, v in obj.items() if k not in ('GROUP', 'SEGMENT')} != {k: v for k, v in copy.items() if k not in ('GROUP', 'SEGMENT')}:
                self.damaged.append((name, dict(obj)))
                obj.clear()
                obj.update(copy)

    def set(self, cfg):
        if cfg is None:
            self.restore()
            return
        self.h.set_default_version(cfg['v'])
        self.h.set_default_validation_level(cfg['level'])
        if cfg['custom_ec']:
            self.h.set_default_encoding_chars(dict(CUSTOM2 if cfg['custom_ec'] == 2 else CUSTOM3 if cfg['custom_ec'] == 3 else CUSTOM))
        else:
            self.h._DEFAULT_ENCODING_CHARS = self.saved[0]

    def restore(self):
        h_ = self.h
        self.heal()
        h_._DEFAULT_ENCODING_CHARS, h_._DEFAULT_ENCODING_CHARS_27, h_._DEFAULT_VERSION, h_._DEFAULT_VALIDATION_LEVEL = self.saved

    def __exit__(self, *a):
        self.restore()
        return False


# ---------------------------------------------------------------------------------------------
# closures: phase1(case) -> state ; phase2(case, state) -> observation (JSON-able)

def _report(el):
    r = el.validate(return_errors=True)
    return [str(e) for e in r.errors], [str(w) for w in r.warnings]


def _walk(el, depth=0):
    yield el
    if type(el).__name__ != 'SubComponent' and depth < 8:
        for c in el.children:
            for x in _walk(c, depth + 1):
                yield x


def _tree_attrs(el):
    return sorted(set((type(x).__name__, x.version, x.validation_level) for x in _walk(el)))


def phase1(case):
    from hl7apy import parser as P
    from hl7apy import core
    from hl7apy.factories import datatype_factory
    k = case['kind']
    ec = explicit_ec(case)
    if case.get('_implicit'):
        # the same call with version and level left to the defaults (which the caller has set to the case's own values)
        case = dict(case, v=None, level=None)
    if k == 'parse_message':
        return P.parse_message(case['text'], validation_level=case['level'], find_groups=case['find_groups'])
    if k == 'parse_segment':
        return P.parse_segment(case['text'], version=case['v'], encoding_chars=ec, validation_level=case['level'])
    if k == 'parse_field':
        return P.parse_field(case['text'], name=case['name'], version=case['v'], encoding_chars=ec, validation_level=case['level'])
    if k == 'parse_component':
        return P.parse_component(case['text'], name=case['name'], datatype=case['datatype'], version=case['v'], encoding_chars=ec,
                                 validation_level=case['level'])
    if k == 'message_model':
        return c07.build(case['model'])
    if k == 'factory':
        return datatype_factory(case['dt'], case['value'], case['v'], case['level'])
    if k == 'elements':
        v, lvl = case['v'], case['level']
        seg = core.Segment(case['seg'], version=v, validation_level=lvl)
        f = seg.add_field(case['fname'])
        return (seg, f)
    if k == 'unknown_component':
        c = core.Component(datatype=case['dt'], version=case['v'], validation_level=case['level'])
        return c
    if k == 'msh_field':
        # MSH-1 / MSH-2 hold the separator characters themselves: their text is never split, whatever the defaults are
        seg = core.Segment('MSH', version=case['v'], validation_level=case['level'])
        how = case['how']
        if how == 'value':
            getattr(seg, case['fname']).value = case['text']
        elif how == 'assign':
            setattr(seg, case['fname'], case['text'])
        elif how == 'component':
            setattr(getattr(seg, case['fname']), 'st', case['text'])
        else:
            setattr(getattr(seg, case['fname']), case['fname'].lower() + '_1', case['text'])
        seg.msh_3 = 'APP'
        return seg
    if k == 'unknown_field':
        return core.Field(datatype=case['dt'], version=case['v'], validation_level=case['level']) if case['dt'] else \
            core.Field(version=case['v'], validation_level=case['level'])
    if k == 'named_component':
        return core.Component(case['name'], datatype=case['dt'], version=case['v'], validation_level=case['level'])
    if k == 'z_field':
        # a field of a locally defined segment with a datatype chosen by the caller, valued with an object of that datatype
        seg = core.Segment('ZPD', version=case['v'], validation_level=case['level'])
        f = core.Field('ZPD_%d' % case['i'], datatype=case['dt'], version=case['v'], validation_level=case['level'])
        f.value = datatype_factory(case['dt'], case['value'], case['v'], case['level'])
        seg.add(f)
        return seg
    raise ValueError(k)


def phase2(case, state):
    from hl7apy import core
    from hl7apy import parser as P
    k = case['kind']
    ec = case.get('ec')
    ecx = R.full(ec) if ec else None
    if k == 'parse_message':
        m = state
        obs = {'er7': m.to_er7(), 'attrs': _tree_attrs(m), 'ec': sorted(m.encoding_chars.items()), 'report': _report(m)}
        # keep working on the existing tree after the switch
        m.msh.msh_3 = 'later'
        obs['after_write'] = m.to_er7()
        obs['attrs2'] = _tree_attrs(m)
        return obs
    if k in ('parse_segment', 'parse_field', 'parse_component'):
        el = state
        rep = None
        if k == 'parse_segment':
            # validate() of a parent-less element spells values in its warnings with the default delimiters (it has no
            # way to receive a set): errors and the number of warnings are compared, not the warning text
            errs, warns = _report(el)
            rep = (errs, len(warns))
        return {'er7': el.to_er7(ecx), 'attrs': _tree_attrs(el), 'report': rep}
    if k == 'message_model':
        m = state
        obs = {'er7': m.to_er7(), 'attrs': _tree_attrs(m), 'ec': sorted(m.encoding_chars.items()), 'report': _report(m)}
        p = P.parse_message(m.to_er7(), validation_level=case['model'].get('level', 2))
        obs['reparsed'] = p.to_er7()
        seg = m.children[-1]
        if type(seg).__name__ == 'Segment' and seg.name != 'MSH':
            names = seg.ordered_children
            if names:
                seg.add_field(names[0])
                obs['after_add'] = m.to_er7()
                obs['attrs2'] = _tree_attrs(m)
        return obs
    if k == 'factory':
        o = state
        return {'cls': type(o).__name__, 'er7': o.to_er7(R.full(R.DEFAULT_EC)), 'level': getattr(o, 'validation_level', None)}
    if k == 'elements':
        seg, f = state
        f.value = case['value']
        obs = {'er7': seg.to_er7(R.full(R.DEFAULT_EC)), 'attrs': _tree_attrs(seg)}
        names = f.ordered_children
        if names:
            c = f.add_component(names[-1])
            c.value = 'zz'
            obs['after_add'] = seg.to_er7(R.full(R.DEFAULT_EC))
            obs['attrs2'] = _tree_attrs(seg)
        errs, warns = _report(seg)
        obs['report'] = (errs, len(warns))
        return obs
    if k == 'unknown_component':
        c = state
        sc = c.add_subcomponent(case['dt'])
        sc.value = 'zz'
        return {'er7': c.to_er7(R.full(R.DEFAULT_EC)), 'attrs': _tree_attrs(c)}
    if k == 'msh_field':
        f = getattr(state, case['fname'])[0]
        return {'er7': state.to_er7(R.full(R.DEFAULT_EC)), 'field': f.to_er7(), 'leaves': [len(c.children) for c in f.children]}
    if k == 'z_field':
        errs, warns = _report(state)
        return {'er7': state.to_er7(R.full(R.DEFAULT_EC)), 'attrs': _tree_attrs(state), 'report': (errs, len(warns))}
    if k in ('unknown_field', 'named_component'):
        return {'er7': state.to_er7(R.full(R.DEFAULT_EC)), 'attrs': _tree_attrs(state), 'datatype': state.datatype}
    raise ValueError(k)


def outcome(case, cfg1, cfg2, damaged=None):
    with Defaults() as d:
        try:
            d.set(cfg1)
            st_ = phase1(case)
            d.set(cfg2)
            return ('ok', phase2(case, st_))
        except Exception as e:
            return ('exc', type(e).__name__, str(e)[:300])
        finally:
            d.heal()
            if damaged is not None:
                damaged.extend(d.damaged)


def check(case, acc=None):
    cfg = case['cfg']
    damaged = []
    base = outcome(case, None, None, damaged)
    allb = outcome(case, cfg, cfg, damaged)
    mixed = outcome(case, None, cfg, damaged)
    out = []
    if damaged:
        out.append(('C17-changing-a-default-rewrites-a-library-dictionary', 'under defaults %r: %s now holds %r' % (cfg, damaged[0][0], damaged[0][1])))
    what = '%s %s' % (case['kind'], {k: v for k, v in case.items() if k in ('v', 'level', 'dt', 'value', 'name', 'seg', 'fname', 'text')})
    if allb != base:
        out.append(('C17-result-depends-on-defaults:%s:%s' % (case['kind'], _dim(base, allb)),
                    '%s under defaults %r\nlibrary defaults: %s\nthat config:      %s' % (what[:300], cfg, str(base)[:500], str(allb)[:500])))
    if not out and case['kind'] != 'message_model' and case.get('v') and case.get('level'):
        # the dual relation: leaving version and level to defaults that hold the very same values is the same call
        own = {'v': case['v'], 'level': case['level'], 'custom_ec': False}
        impl = outcome(dict(case, _implicit=True), own, own, damaged)
        if impl != base:
            out.append(('C17-default-is-not-applied-like-the-explicit-value:%s:%s' % (case['kind'], _dim(base, impl)),
                        '%s\nexplicit arguments:                         %s\nsame values as defaults, arguments omitted: %s' % (what[:300], str(base)[:400], str(impl)[:400])))
    if out:
        pass
    elif mixed != base:
        out.append(('C17-existing-elements-affected-by-default-change:%s:%s' % (case['kind'], _dim(base, mixed)),
                    '%s built under library defaults, then defaults switched to %r\nstay:   %s\nswitch: %s' % (
                        what[:300], cfg, str(base)[:500], str(mixed)[:500])))
    return out


def _dim(a, b):
    if a[0] != b[0]:
        return 'exception-vs-value'
    if a[0] == 'exc':
        return 'exception'
    for k in sorted(a[1]):
        if a[1].get(k) != b[1].get(k):
            return k
    return 'other'


def replay(case, acc):
    return check(case)


# ---------------------------------------------------------------------------------------------

BIG = 'x' * 250
BIG2 = 'x' * 1200        # (longer than the 999 characters that v2.6 gives an ST)


def c17_leaf(v, dt, ec):
    base = c05.zoo_leaf(v, dt, ec)
    if dt in ('NM', 'SI', 'DT', 'TM', 'DTM'):
        return st.one_of(base, base, base, st.just(BIG))
    if dt in ('ST', 'TX', 'FT', 'ID', 'IS'):
        return st.one_of(base, base, base, base, st.just(BIG), st.just(BIG2))
    return base


@st.composite
def configs(draw):
    return {'v': draw(st.sampled_from(T.VERSIONS)), 'level': draw(st.sampled_from([1, 2])), 'custom_ec': draw(st.sampled_from([False, True, True, 2, 3]))}


@st.composite
def cases(draw, cells, mcells):
    k = draw(st.sampled_from(['parse_message', 'parse_message', 'parse_segment', 'parse_segment', 'parse_field', 'parse_component',
                              'message_model', 'factory', 'factory', 'elements', 'unknown_component', 'unknown_field', 'named_component', 'msh_field', 'z_field']))
    cfg = draw(configs())
    level = draw(st.sampled_from([1, 2]))
    if k == 'parse_message':
        src = draw(st.integers(0, 2))
        if src == 0:
            c = draw(c01.grouped_message_cases(mcells))
        elif src == 1:
            c = draw(c03.cases(T.VERSIONS))
        else:
            c = draw(c01.flat_message_cases(T.VERSIONS))
        case = {'kind': k, 'text': c['text'], 'level': level, 'find_groups': draw(st.booleans()), 'v': c['v']}
    elif k == 'parse_segment':
        v, s = draw(st.sampled_from(cells))
        ec = draw(S.delimiter_sets(v, default_weight=5))
        line = draw(S.segment_line(v, s, ec, leaf_fn=c17_leaf, p_fill=2))
        case = {'kind': k, 'v': v, 'text': line, 'level': level, 'ec': ec}
        if {x: ec[x] for x in ec if x != 'TRUNCATION'} == R.DEFAULT_EC and 'TRUNCATION' not in ec:
            # the standard set can also be handed over as the library's own constant / as a dictionary obtained from it earlier
            case['ec_source'] = draw(st.sampled_from(['own', 'constant', 'captured']))
    elif k == 'parse_field':
        c = draw(c01.field_cases(cells))
        v = c['v']
        case = {'kind': k, 'v': v, 'name': c['name'], 'text': c['text'], 'level': level, 'ec': c['ec'] or S.default_ec(v)}
    elif k == 'parse_component':
        c = draw(c01.component_cases(T.VERSIONS))
        v = c['v']
        case = {'kind': k, 'v': v, 'name': c['name'], 'datatype': c['datatype'], 'text': c['text'], 'level': level,
                'ec': c['ec'] or S.default_ec(v)}
    elif k == 'message_model':
        model = draw(c07.cases(c07.message_cells()))
        if model['how'] == 4:
            model['how'] = 0      # stand-alone segments take string values with the DEFAULT delimiters (documented): not an explicit closure
        case = {'kind': k, 'model': model, 'v': model['v'], 'level': 2}
    elif k == 'factory':
        v = draw(st.sampled_from(T.VERSIONS))
        dt = draw(st.sampled_from(sorted(T.lib(v).BASE_DATATYPES)))
        value = draw(c17_leaf(v, dt, S.default_ec(v)))
        case = {'kind': k, 'v': v, 'dt': dt, 'value': value, 'level': level}
    elif k == 'elements':
        v, s = draw(st.sampled_from(cells))
        rows = T.seg_fields(v, s)
        fname, i, ref, card = draw(st.sampled_from(rows))
        # a string assigned to a field of a parent-less segment is split with the *default* delimiters (documented):
        # the value therefore holds no character of any delimiter set
        dt0 = lit.first_leaf_dt(T, v, ref)
        value = draw(st.one_of(st.sampled_from([lit.valid(dt0, 0), lit.valid(dt0, 1)]), st.sampled_from(['abc', 'x1', BIG, BIG2, '12', '2020'])))
        if any(c in ANY_DELIMITER for c in value):
            value = '12' if dt0 in ('NM', 'SI') else 'abc'          # (12.5, 12:30 ... with the set made of . : + # ?)
        case = {'kind': k, 'v': v, 'seg': s, 'fname': fname, 'value': value, 'level': level}
    elif k == 'msh_field':
        v = draw(st.sampled_from(T.VERSIONS))
        fname = draw(st.sampled_from(['MSH_2', 'MSH_2', 'MSH_1']))
        text = draw(st.sampled_from(['^~\\&', '!$*@', '$%@!', '^&~\\'])) if fname == 'MSH_2' else draw(st.sampled_from(['|', '!', '&', '$']))
        if fname == 'MSH_2' and T.vkey(v) >= [2, 7] and draw(st.booleans()):
            text += '#'
        case = {'kind': k, 'v': v, 'fname': fname, 'text': text, 'how': draw(st.sampled_from(['value', 'assign', 'component', 'path'])), 'level': level}
    elif k == 'z_field':
        v = draw(st.sampled_from(T.VERSIONS))
        dt = draw(st.sampled_from(sorted(T.lib(v).BASE_DATATYPES)))
        case = {'kind': k, 'v': v, 'dt': dt, 'i': draw(st.integers(1, 5)), 'value': lit.valid(dt, draw(st.integers(0, 2))), 'level': level}
    elif k == 'unknown_field':
        v = draw(st.sampled_from(T.VERSIONS))
        dt = draw(st.sampled_from([None, None, 'ST', 'varies'] + sorted(T.complex_datatypes(v))[:4]))
        case = {'kind': k, 'v': v, 'dt': dt, 'level': level}
    elif k == 'named_component':
        v = draw(st.sampled_from(T.VERSIONS))
        cdt = draw(st.sampled_from(sorted(T.complex_datatypes(v))))
        rows = T.dt_children(v, cdt)
        name = draw(st.sampled_from(rows))[0]
        dt = draw(st.sampled_from([None, 'ST', 'NM', 'varies'] + sorted(T.complex_datatypes(v))[:3]))
        case = {'kind': k, 'v': v, 'name': name, 'dt': dt, 'level': level}
    else:
        v = draw(st.sampled_from(T.VERSIONS))
        dt = draw(st.sampled_from(sorted(T.lib(v).BASE_DATATYPES) + sorted(T.complex_datatypes(v))[:6]))
        case = {'kind': k, 'v': v, 'dt': dt, 'level': level}
    case['cfg'] = cfg
    return case


def _run(case, acc):
    cfg = case['cfg']
    differs = cfg['v'] != case.get('v') or cfg['level'] != case.get('level') or cfg['custom_ec']
    acc.case(h(case), differs, sample=case if len(str(case)) < 900 else None, label='closure:' + case['kind'])
    return check(case)


def run_shard(shard, acc):
    hyp_collect(acc, cases([tuple(c) for c in shard['cells']], [tuple(c) for c in shard['mcells']]), _run, shard['seed'], shard['n'],
                shard['shrink'], rounds=6)


def plan(tier, seed):
    cells = c01.all_cells()
    mcells = c01.message_cells()
    n, k = (16, 150) if tier == 'quick' else (48, 1500)
    return [{'cells': cells[i::n], 'mcells': mcells[i::n], 'seed': seed * 1000 + i, 'n': k, 'shrink': tier != 'quick'} for i in range(n)]
