"""C16 - MLLP: one framed request in, exactly one correctly routed reply out."""
import socket
import os
import threading
import time
import itertools

from hypothesis import strategies as st

from hv import tables as T
from hv import refmodel as R
from hv import strategies as S
from hv.common import hyp_collect, h

ID = 'C16'
LEVEL = 'fault_enumeration'
EXHAUSTIVE = {}
RULE = ('a real MLLPServer on 127.0.0.1 (ephemeral port, timeout 1 s) with logging handlers for three message types and an ERR handler. '
        'Cases: (a) pure framing: to_mllp() of generated messages (all versions, drawn delimiter sets) equals SB + to_er7() + CR + EB + CR '
        'and the server\'s frame extractor returns that text; (b) splittings: every 2-split of a short frame at every byte boundary and every '
        '3-split around its head and tail (exhaustive), Hypothesis-drawn cut points for generated frames, chunks sent with small pauses '
        'and TCP_NODELAY; (c) 2-8 simultaneous clients released by a barrier, each sending its own message in chunks; (d) payload classes: '
        'registered type, unregistered type, non-HL7 text, HL7-looking text with a broken header, with/without the final segment terminator, '
        'non-ASCII content; (e) faults: first byte not SB, truncated frame then close, truncated frame then stall past the timeout, invalid '
        'UTF-8, early client close, frames missing their last 1-3 bytes with the client half-closing its send side. Oracle per connection: exactly one handler invocation carrying that client\'s text (with or without its '
        'last CR), by the handler registered for its MSH-9, else the ERR handler with UnsupportedMessageType (InvalidHL7Message for '
        'non-HL7); the client receives exactly that handler\'s reply and then EOF; fault cases: no invocation and EOF/reset. A wait that '
        'expires is counted as inconclusive, never as a violation. Non-trivial = a case with >= 2 chunks, >= 2 clients or a fault; '
        'distinct by (payload class, cut points, client count, fault).')
ASSUMPTIONS = [
    'the harness owns the send schedule, not the kernel delivery schedule: chunks may coalesce despite pauses',
    'the handler receives the ER7 text including the final segment terminator (the frame regex captures it): both spellings are accepted',
]
TECHNIQUE = 'enumerated and Hypothesis-drawn frame splittings, concurrent clients and injected transport faults against a live server; per-connection routing / reply / close oracle'
LEVEL_TEXT = ('fault enumeration: exhaustive 2-splits and head/tail 3-splits of short frames, a fixed fault matrix (5 fault kinds x payloads), '
              'sampled splittings and client interleavings')
LEVEL_NOTE = 'trusted: the in-process log of handler invocations (thread-safe list) and client-side socket reads with a bounded wait'

SB, EB, CR = b'\x0b', b'\x1c', b'\r'
TYPES = ['ADT^A01^ADT_A01', 'ORU^R01^ORU_R01', 'QBP^Q21^QBP_Q21']
_SRV = {}


def server():
    """one server per process, started lazily"""
    if _SRV.get('pid') == os.getpid():
        return _SRV
    _SRV.clear()        # a forked worker does not inherit the serving thread of its parent: it starts a server of its own
    _SRV['pid'] = os.getpid()
    from hl7apy.mllp import MLLPServer, AbstractHandler, AbstractErrorHandler
    log = []
    lock = threading.Lock()

    class H(AbstractHandler):
        def __init__(self, message, tag):
            super(H, self).__init__(message)
            self.tag = tag
            with lock:
                log.append(('call', tag, message))

        def reply(self):
            return 'ACK<%s><%s>' % (self.tag, _token(self.incoming_message)) + _padding(self.incoming_message)

    class EH(AbstractErrorHandler):
        def __init__(self, exc, message):
            super(EH, self).__init__(exc, message)
            with lock:
                log.append(('err', type(exc).__name__, message))

        def reply(self):
            return 'ERR<%s><%s>' % (type(self.exc).__name__, _token(self.incoming_message))

    class Quiet(MLLPServer):
        daemon_threads = True

        def handle_error(self, request, client_address):
            import sys
            with lock:
                log.append(('crash', type(sys.exc_info()[1]).__name__, ''))

    handlers = {t: (H, 'h%d' % i) for i, t in enumerate(TYPES)}
    handlers['ERR'] = (EH,)
    srv = Quiet('127.0.0.1', 0, handlers, timeout=1)
    th = threading.Thread(target=srv.serve_forever, kwargs={'poll_interval': 0.05})
    th.daemon = True
    th.start()
    _SRV.update(srv=srv, log=log, lock=lock, port=srv.server_address[1])
    return _SRV


BIG = 6 * 1000 * 1000


def _padding(text):
    """a message that asks for it gets a reply of several megabytes (more than the socket buffers hold)"""
    return 'x' * BIG if 'BIGREPLY' in text else ''


def _token(text):
    import hashlib
    return hashlib.md5(text.rstrip('\r').encode('utf-8', 'replace')).hexdigest()[:10]


def make_message(mtype, uid, extra_lines=(), final_cr=True, sep='|'):
    msh = 'MSH%s^~\\&%sSND%sFAC%sRCV%sFAC%s20200101%s%s%s%s%s%sP%s2.5' % (sep, sep, sep, sep, sep, sep, sep, sep, mtype, sep, uid, sep, sep)
    return '\r'.join([msh] + list(extra_lines))


def frame(payload_text, final_cr=True):
    body = payload_text.encode('utf-8')
    return SB + body + (CR if final_cr else b'') + EB + CR


def send_chunks(port, chunks, pause, close_early=False, stall=0.0, read_timeout=4.0, half_close=False):
    """-> (bytes received, 'eof' | 'reset' | 'timeout')"""
    s = socket.socket(socket.AF_INET, socket.SOCK_STREAM)
    s.setsockopt(socket.IPPROTO_TCP, socket.TCP_NODELAY, 1)
    s.settimeout(read_timeout)
    got, how = b'', 'eof'
    try:
        s.connect(('127.0.0.1', port))
        for i, c in enumerate(chunks):
            if i and pause:
                time.sleep(pause)
            s.sendall(c)
        if stall:
            time.sleep(stall)
        if half_close:
            s.shutdown(socket.SHUT_WR)      # nothing more will be sent; the reply (if any) can still be read
        if close_early:
            s.close()
            return got, 'closed-by-client'
        while True:
            try:
                b = s.recv(1 << 16)
            except socket.timeout:
                how = 'timeout'
                break
            except (ConnectionResetError, BrokenPipeError):
                how = 'reset'
                break
            if not b:
                break
            got += b
    except (ConnectionResetError, BrokenPipeError):
        how = 'reset'
    finally:
        try:
            s.close()
        except Exception:
            pass
    return got, how


def split(data, cuts):
    cuts = sorted(set(c for c in cuts if 0 < c < len(data)))
    out, prev = [], 0
    for c in cuts:
        out.append(data[prev:c])
        prev = c
    out.append(data[prev:])
    return out


# ---------------------------------------------------------------------------------------------

def expected_for(kind, text):
    """-> (log kind, tag or exception name, reply prefix)"""
    if kind.startswith('registered'):
        i = int(kind[-1])
        return ('call', 'h%d' % i)
    if kind == 'unregistered':
        return ('err', 'UnsupportedMessageType')
    return ('err', 'InvalidHL7Message')


def run_clients(clients, pause):
    """clients: list of dict(kind, text, uid, cuts, final_cr, fault). Returns violations."""
    S_ = server()
    port, log, lock = S_['port'], S_['log'], S_['lock']
    results = [None] * len(clients)
    barrier = threading.Barrier(len(clients))

    def work(i, c):
        data = frame(c['text'], c.get('final_cr', True))
        fault = c.get('fault')
        close_early, stall, half = False, 0.0, False
        if fault and fault.startswith('missing-last-'):
            data = data[:-int(fault.rsplit('-', 1)[1])]
            half = True
        if fault == 'no-start-block':
            data = data[1:]
        elif fault == 'garbage-first-byte':
            data = b'X' + data[1:]
        elif fault == 'truncated-then-close':
            data = data[:max(2, len(data) // 2)]
            close_early = True
        elif fault == 'truncated-then-stall':
            data = data[:max(2, len(data) - 2)]
            stall = 1.6
        elif fault == 'invalid-utf8':
            data = data[:10] + b'\xff\xfe\x80' + data[10:]
        elif fault == 'close-before-reading':
            close_early = True
        try:
            barrier.wait(5)
        except Exception:
            pass
        results[i] = send_chunks(port, split(data, c.get('cuts', [])), pause, close_early, stall, half_close=half)

    ths = [threading.Thread(target=work, args=(i, c)) for i, c in enumerate(clients)]
    for t in ths:
        t.start()
    for t in ths:
        t.join(15)
    time.sleep(0.05)
    out = []
    with lock:
        entries = list(log)
    for i, c in enumerate(clients):
        if results[i] is None:
            return [('inconclusive', 'client thread did not finish')]
        got, how = results[i]
        uid = c['uid']
        mine = [e for e in entries if uid in e[2]]
        fault = c.get('fault')
        text = c['text']
        if fault in ('no-start-block', 'garbage-first-byte', 'truncated-then-close', 'truncated-then-stall', 'invalid-utf8') or \
                (fault or '').startswith('missing-last-'):
            if mine:
                out.append(('C16-fault-%s-invoked-a-handler' % fault, '%r -> %r' % (text[:60], mine[:2])))
            if fault != 'truncated-then-close' and got:
                out.append(('C16-fault-%s-got-a-reply' % fault, '%r -> %r' % (text[:60], got[:80])))
            if how == 'timeout':
                out.append(('inconclusive', 'fault %s: connection not closed within the wait' % fault))
            continue
        if fault == 'close-before-reading':
            if len(mine) > 1:
                out.append(('C16-more-than-one-invocation', '%r: %r' % (uid, mine)))
            continue
        if how == 'timeout':
            out.append(('inconclusive', 'no EOF within the wait for %r' % uid))
            continue
        want = expected_for(c['kind'], text)
        if len(mine) != 1:
            out.append(('C16-%d-invocations-for-one-connection:%s' % (len(mine), c['kind']), 'uid %s cuts %r: log %r, reply %r' % (
                uid, c.get('cuts'), mine[:3], got[:80])))
            continue
        e = mine[0]
        if (e[0], e[1]) != want:
            out.append(('C16-wrong-handler:%s' % c['kind'], 'uid %s: invoked %r, expected %r' % (uid, e[:2], want)))
        if e[2] not in (text, text + '\r'):
            out.append(('C16-handler-received-altered-text', 'sent %r, handler got %r' % (text[:200], e[2][:200])))
        exp_reply = ('ACK<%s><%s>' % (want[1], _token(text)) + _padding(text)) if want[0] == 'call' else ('ERR<%s><%s>' % (want[1], _token(text)))
        try:
            reply = got.decode('utf-8')
        except Exception:
            reply = repr(got)
        if reply != exp_reply:
            out.append(('C16-wrong-reply:%s%s' % (c['kind'], ':big' if _padding(text) else ''), 'uid %s cuts %r: received %r (%d characters), expected %r (%d characters)' % (
                uid, c.get('cuts'), reply[:120], len(reply), exp_reply[:120], len(exp_reply))))
    return out


def check_pure(case):
    from hl7apy import parser as P
    from hl7apy.mllp import MLLPRequestHandler
    out = []
    try:
        m = P.parse_message(case['text'], validation_level=2, find_groups=case.get('find_groups', True))
        er7 = m.to_er7()
        ml = m.to_mllp()
    except Exception as e:
        return [('C16-to_mllp-raises:%s' % type(e).__name__, str(e)[:200])]
    if ml != '\x0b' + er7 + '\r\x1c\r':
        out.append(('C16-to_mllp-framing', '%r' % ml[:120]))
    # ... also when the message ends with a group that holds nothing (its ER7 text then ends with a separator of its own)
    try:
        from hl7apy.core import Group
        gs = [n for n, r, card, kd in T.struct_children(T.message_ref(m.version, case.get('structure') or m.name)) if kd == 'GRP']
        if gs:
            m.add(Group(gs[-1], version=m.version, validation_level=2))
            er7b, mlb = m.to_er7(), m.to_mllp()
            if mlb != '\x0b' + er7b + '\r\x1c\r':
                out.append(('C16-to_mllp-framing:message-ending-with-an-empty-group', 'to_er7 %r, to_mllp %r' % (er7b[-30:], mlb[-34:])))
    except Exception as e:
        out.append(('C16-to_mllp-raises:%s' % type(e).__name__, 'with an empty group added: ' + str(e)[:200]))
    # the extractor used by the server, on a handler object that is set up but not connected
    h_ = MLLPRequestHandler.__new__(MLLPRequestHandler)

    class _Srv(object):
        handlers, timeout = {}, 1
    h_.server = _Srv()
    h_.request = _FakeSock()
    try:
        h_.setup()
        got = h_._extract_hl7_message(ml)
    except Exception as e:
        return out + [('C16-extract-raises:%s' % type(e).__name__, str(e)[:200])]
    if got not in (er7, er7 + '\r'):
        out.append(('C16-extractor-alters-text', 'framed %r, extracted %r' % (er7[:200], (got or '')[:200])))
    return out


class _FakeSock(object):
    def makefile(self, *a, **k):
        import io
        return io.BytesIO()

    def settimeout(self, t):
        pass

    def setsockopt(self, *a):
        pass


def check(case, acc=None):
    if case['kind'] == 'pure':
        return check_pure(case)
    clients = [materialise(sp) for sp in case['specs']] if case['kind'] == 'specs' else case['clients']
    vs = run_clients(clients, case.get('pause', 0.01))
    real = [v for v in vs if v[0] != 'inconclusive']
    if acc is not None:
        acc.inconclusive += len(vs) - len(real)
    return real


def replay(case, acc):
    # a transport-level case may need a second look before it is reported (scheduling noise never produces a violation
    # by construction, but a reproduced one is the stronger statement)
    return check(case, acc)


# ---------------------------------------------------------------------------------------------
_uid = itertools.count(1)


def new_uid(tag=''):
    import os
    return 'U%07d%05d' % (os.getpid() % 10 ** 7, next(_uid) % 10 ** 5)      # fixed width: frame lengths do not depend on it


PAYLOADS = ['registered0', 'registered1', 'registered2', 'unregistered', 'non-hl7', 'broken-header', 'type-err', 'blank-line', 'line-break-char']
ODD = ['\n', '\x0c', '\x1d', '\x1e', '\x85', '\u2028', '\u2029']      # what str.splitlines() takes for line boundaries besides CR (not the MLLP bytes)


def materialise(spec):
    """a drawn client spec (no run-time data in it) -> a client with a fresh uid and absolute cut points"""
    c = make_client(spec['kind'], (), spec['final_cr'], spec['fault'], spec['extra'], spec['nonascii'])
    ln = len(frame(c['text'], c['final_cr']))
    cuts = set(1 + (p * (ln - 2)) // 1000 for p in spec['permille'])
    if spec['cut_before_last_byte']:
        cuts.add(ln - 1)
    c['cuts'] = sorted(cuts)
    return c


def make_client(kind, cuts=(), final_cr=True, fault=None, extra=(), nonascii=False):
    uid = new_uid()
    if kind.startswith('registered'):
        text = make_message(TYPES[int(kind[-1])], uid, extra)
    elif kind == 'unregistered':
        text = make_message('ADT^A02^ADT_A02', uid, extra)
    elif kind == 'type-err':
        text = make_message('ERR', uid, extra)              # a message type spelled like the key of the error handler: not registered
    elif kind == 'blank-line':
        # an empty line inside the frame and one at its end (what to_er7() of a message holding an empty group looks like)
        lines = make_message(TYPES[0], uid, extra).split('\r')
        text = '\r'.join(lines[:1] + [''] + lines[1:]) + '\r'
    elif kind == 'line-break-char':
        # a character that some text functions take for a line boundary, inside a header field before the message type
        text = make_message(TYPES[1], uid, extra).replace('SND', 'S' + ODD[int(uid[-3:]) % len(ODD)] + 'ND', 1)
    elif kind == 'big-reply':
        text = make_message(TYPES[2], uid, list(extra) + ['NTE|1||BIGREPLY'])
    elif kind == 'non-hl7':
        text = 'INVALID MESSAGE %s' % uid
    else:
        text = 'MSH|^~\\&#|%s' % uid          # five delimiters, no MSH-12: not a parsable header
    if nonascii:
        text += '\rNTE|1||café 中'
    kind = {'broken-header': 'non-hl7', 'type-err': 'unregistered', 'blank-line': 'registered0', 'line-break-char': 'registered1',
            'big-reply': 'registered2'}.get(kind, kind)
    return {'kind': kind, 'text': text, 'uid': uid, 'cuts': list(cuts), 'final_cr': final_cr,
            'fault': fault}


def _emit(acc, case, nontrivial, label):
    for sig, detail in check(case, acc):
        acc.violation(sig, case, detail)
    acc.case(None, nontrivial, sample=case if len(str(case)) < 700 else None, label=label, enumerated=True)


@st.composite
def drawn_cases(draw):
    n = draw(st.sampled_from([1, 1, 2, 3, 4, 6, 8]))
    specs = []
    for _ in range(n):
        kind = draw(st.sampled_from(PAYLOADS + ['registered0', 'registered1'] + (['big-reply', 'big-reply'] if n == 1 else [])))
        extra = ['PID|1||%s' % ''.join(draw(st.lists(st.sampled_from('ABC123^~'), max_size=30)))] * draw(st.integers(0, 2))
        fault = None
        if draw(st.integers(0, 7)) == 0:
            fault = draw(st.sampled_from(['no-start-block', 'garbage-first-byte', 'truncated-then-close', 'invalid-utf8', 'close-before-reading',
                                          'missing-last-1', 'missing-last-2']))
        specs.append({'kind': kind, 'final_cr': draw(st.booleans()), 'fault': fault, 'extra': extra, 'nonascii': draw(st.integers(0, 4)) == 0,
                      'permille': sorted(set(draw(st.lists(st.integers(0, 1000), max_size=4)))),
                      'cut_before_last_byte': draw(st.integers(0, 3)) == 0})
    return {'kind': 'specs', 'specs': specs, 'pause': draw(st.sampled_from([0.0, 0.005, 0.02]))}


def run_shard(shard, acc):
    k = shard['kind']
    if k == 'pure':
        from hv.props import c01

        def run(case, acc):
            acc.case(h(case['text']), True, sample={'text': case['text'][:300]}, label='pure')
            return check_pure(case)
        hyp_collect(acc, c01.grouped_message_cases([tuple(c) for c in shard['cells']]).map(lambda c: dict(c, kind='pure')), run,
                    shard['seed'], shard['n'], False)
    elif k == 'splits':
        kind = shard['payload']
        probe = make_client(kind, final_cr=shard['final_cr'])
        ln = len(frame(probe['text'], probe['final_cr']))
        batch = []
        for c1 in range(1, ln):
            batch.append([c1])
        for a in list(range(1, 7)) + list(range(ln - 5, ln)):
            for b in list(range(1, 9)) + list(range(ln - 6, ln)):
                if a < b:
                    batch.append([a, b])
        # several connections at once: each its own uid and cut points
        for i in range(0, len(batch), 6):
            clients = [make_client(kind, cuts, shard['final_cr']) for cuts in batch[i:i + 6]]
            _emit(acc, {'kind': 'clients', 'clients': clients, 'pause': 0.02}, True, 'exhaustive-splits:' + kind)
    elif k == 'faults':
        for fault in ('no-start-block', 'garbage-first-byte', 'truncated-then-close', 'invalid-utf8', 'close-before-reading',
                      'missing-last-1', 'missing-last-2', 'missing-last-3', 'truncated-then-stall'):
            clients = [make_client(kind, (), True, fault) for kind in ('registered0', 'unregistered', 'non-hl7')]
            clients.append(make_client('registered1', [5, 9]))        # a healthy client in the same batch
            _emit(acc, {'kind': 'clients', 'clients': clients, 'pause': 0.01}, True, 'fault:' + fault)
    else:
        def run(case, acc):
            nt = len(case['specs']) > 1 or any(c['permille'] or c['cut_before_last_byte'] or c['fault'] for c in case['specs'])
            acc.case(h(case), nt, sample=case if len(str(case)) < 900 else None, label='drawn:%d-clients' % len(case['specs']))
            return check(case, acc)
        hyp_collect(acc, drawn_cases(), run, shard['seed'], shard['n'], False)


def plan(tier, seed):
    from hv.props import c01
    mcells = c01.message_cells()
    q = tier == 'quick'
    shards = [{'kind': 'pure', 'cells': mcells[i::2], 'seed': seed * 100 + i, 'n': 150 if q else 1500} for i in range(2)]
    for p in (['registered0', 'unregistered', 'non-hl7'] if q else PAYLOADS):
        for fc in ((True,) if q else (True, False)):
            shards.append({'kind': 'splits', 'payload': p, 'final_cr': fc})
    shards.append({'kind': 'faults'})
    for i in range(6 if q else 12):
        shards.append({'kind': 'drawn', 'seed': seed * 1000 + i, 'n': 60 if q else 600})
    return shards
