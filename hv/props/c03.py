"""C03 - parsing never silently drops or reorders content."""
from hypothesis import strategies as st

from hv import tables as T
from hv import refmodel as R
from hv import strategies as S
from hv.common import hyp_collect, h

ID = 'C03'
LEVEL = 'exploration'
EXHAUSTIVE = {}
RULE = ('Hypothesis: MSH + 0-12 segment lines whose names are drawn from four labelled pools (segments of the declared structure in '
        'any order and repetition, other real segments of the version, Z-segments, names the version does not define) for message '
        'types that are standard, unknown to the version or Z-messages; lines come from the table-driven generator and are optionally '
        'extended with fields beyond the defined count, components beyond the datatype, components on base-datatype fields and edge '
        'blanks on textual leaves; all versions x find_groups in {True, False}. Oracle: parse_message raises an HL7apyException, or the '
        're-encoded message has the same segment names in the same order and, per segment, the same non-blank leaf strings in the '
        'same order (independent reference splitter), and flattening the element tree gives the same name sequence. Non-trivial = the '
        'message contains a segment outside the declared structure, a Z-segment, a repeated segment or out-of-table content; distinct '
        'by hash of (text, find_groups).')
ASSUMPTIONS = [
    'numeric/date leaves are canonical (C01 sense) so that a changed leaf is a loss, not a normalisation',
    'the last leaf of a line carries no trailing blank (the parser strips segment lines); blank-only leaves count as empty',
    'segment names are three upper-case characters; lower-case or short names belong to C15',
]
TECHNIQUE = 'Hypothesis structured generation of well-formed messages with out-of-structure content; leaf-sequence oracle from an independent ER7 splitter'
LEVEL_TEXT = 'exploration: sampled messages over all versions, both find_groups values, four name pools, three message-type classes'
LEVEL_NOTE = 'trusted: reference splitter (hv/refmodel.py) and the canonical-leaf generators shared with C01'

TOL = 2


def struct_names(v, m):
    try:
        ref = T.message_ref(v, m)
        return set(T.name_places(ref))
    except Exception:
        return set()


def _blank_leaf(v, dt, ec):
    base = S.leaf(v, dt, ec)
    if dt in ('NM', 'SI', 'DT', 'TM', 'DTM'):
        return base
    return st.one_of(base, base, st.builds(lambda a, l, r: ' ' * l + a + ' ' * r, base, st.integers(0, 2), st.integers(0, 2)))


@st.composite
def rich_line(draw, v, s, ec):
    """a table-driven line, optionally with out-of-table content"""
    rows = T.seg_fields(v, s)
    line = draw(S.segment_line(v, s, ec, leaf_fn=_blank_leaf))
    flags = []
    k = draw(st.integers(0, 9))
    F, C = ec['FIELD'], ec['COMPONENT']
    if k < 2:
        # components beyond the datatype / on a base-datatype field: extend the last field's last repetition
        name, fields = R.split_segment(line, ec)
        last = max(fields)
        row = [r for r in rows if r[1] == last]
        ncomp = len(T.ref_children(v, row[0][2]) or ()) if row else 0
        # the out-of-table leaf starts with a letter: on a numeric field a digit string would be normalised ('00' -> '0')
        line = line + C * max(ncomp, 1) + 'q' + draw(S.textual_leaf(v, ec, 1))
        flags.append('extra-component')
    elif k < 4 and rows[-1][2][2] != 'varies':
        # fields beyond the defined count
        name, fields = R.split_segment(line, ec)
        have = max(fields)
        pad = rows[-1][1] - have + draw(st.integers(1, 3))
        line = line + F * pad + 'q' + draw(S.textual_leaf(v, ec, 1))
        if draw(st.booleans()):
            line = line + F + 'q' + draw(S.textual_leaf(v, ec, 1)) + C + 'q' + draw(S.textual_leaf(v, ec, 1))
        flags.append('extra-field')
    return line.rstrip(' '), flags


@st.composite
def z_line(draw, name, v, ec):
    n = draw(st.integers(1, 4))
    fields = {}
    for i in range(1, n + 1):
        if i == n or draw(st.booleans()):
            comps = [draw(S.textual_leaf(v, ec, 1)) for _ in range(draw(st.sampled_from([1, 1, 2, 3])))]
            text = ec['COMPONENT'].join(comps)
            if draw(st.integers(0, 4)) == 0:
                text = text + ec['REPETITION'] + draw(S.textual_leaf(v, ec, 1))
            fields[i] = text
    return R.enc_segment(name, fields, ec)


ZNAMES = ['ZXX', 'ZA1', 'Z9Z', 'ZPI', 'ZZZ']
UNKNOWN_NAMES = ['XXX', 'QQ1', 'A1B']


@st.composite
def cases(draw, versions):
    v = draw(st.sampled_from(versions))
    ec = draw(S.delimiter_sets(v, message_level=True, default_weight=7))
    kind = draw(st.sampled_from(['standard'] * 6 + ['unknown', 'zmessage']))
    if kind == 'standard':
        m = draw(st.sampled_from([x for x in T.messages(v) if '_' in x]))
    elif kind == 'unknown':
        m = draw(st.sampled_from(['ADT_Q99', 'QQQ_Q01', 'ABC_D01']))
    else:
        m = draw(st.sampled_from(['ZXX_ZYY', 'ZAB_Z01']))
    inside = sorted(n for n in struct_names(v, m) if n != 'MSH' and n in T.segments(v)) if kind == 'standard' else []
    real = [s for s in T.segments(v) if s != 'MSH']
    lines = [draw(S.msh_line(v, m, ec))]
    pools = []
    flags = set()
    for _ in range(draw(st.integers(0, 8 if draw(st.booleans()) else 12))):
        p = draw(st.integers(0, 9))
        if p < 5 and inside:
            name, pool = draw(st.sampled_from(inside)), 'in-structure'
        elif p < 7:
            name, pool = draw(st.sampled_from(real)), ('foreign' if name_not_in(inside, None) else 'foreign')
        elif p < 9:
            name, pool = draw(st.sampled_from(ZNAMES)), 'z-segment'
        else:
            name, pool = draw(st.sampled_from(UNKNOWN_NAMES)), 'undefined-name'
        if draw(st.integers(0, 9)) == 0:
            lines.append(name)          # a line that is nothing but the segment name: a segment without fields
            flags.add('bare-name-line')
        elif pool in ('z-segment', 'undefined-name'):
            lines.append(draw(z_line(name, v, ec)))
        else:
            line, fl = draw(rich_line(v, name, ec))
            lines.append(line)
            flags.update(fl)
            if pool == 'foreign' and name in inside:
                pool = 'in-structure'
        pools.append(pool)
    return {'v': v, 'm': m, 'mkind': kind, 'text': '\r'.join(lines), 'find_groups': draw(st.booleans()),
            'pools': pools, 'flags': sorted(flags), 'mec': {k: ec[k] for k in ec if k not in ('SEGMENT', 'GROUP')}}


def name_not_in(inside, name):
    return True


def _norm_leaves(lv):
    return [(n, [x for x in ls if x.strip(' ') != '']) for n, ls in lv]


def flatten_names(el):
    from hl7apy.core import Segment
    out = []
    for c in el.children:
        if isinstance(c, Segment):
            out.append(c.name)
        else:
            out.extend(flatten_names(c))
    return out


def check(case, acc=None):
    from hl7apy import parser as P
    from hl7apy.exceptions import HL7apyException
    text, fg, v, m = case['text'], case['find_groups'], case['v'], case['m']
    ec = R.full(case['mec'])
    try:
        msg = P.parse_message(text, validation_level=TOL, find_groups=fg)
    except HL7apyException as e:
        if acc is not None:
            acc.extra['rejected:' + type(e).__name__] += 1
        return []
    except Exception as e:
        return [('C03-parse-crashes:%s' % type(e).__name__, 'find_groups=%s %r: %s' % (fg, text[:300], e))]
    try:
        out = msg.to_er7()
    except Exception as e:
        return [('C03-encode-crashes:%s' % type(e).__name__, 'find_groups=%s %r: %s' % (fg, text[:300], e))]
    want = _norm_leaves(R.leaves(text, ec))
    got = _norm_leaves(R.leaves(out, ec))
    res = []
    if got != want:
        wn, gn = [x[0] for x in want], [x[0] for x in got]
        if wn != gn:
            names = struct_names(v, m) if case['mkind'] == 'standard' else set()
            lost = list(wn)
            for n in gn:
                if n in lost:
                    lost.remove(n)
            if fg and lost and sorted(gn) != sorted(wn) and all(n not in names for n in lost) and \
                    [n for n in wn if n in names or n not in lost] == gn:
                res.append(('C03-unplaceable-segment-dropped', 'find_groups=True: segments %r (not in structure %s) vanished\n'
                            'input  %r\noutput %r' % (lost, m, text[:400], out[:400])))
            elif sorted(gn) == sorted(wn):
                res.append(('C03-segments-reordered', 'find_groups=%s\ninput  %r\noutput %r' % (fg, wn, gn)))
            else:
                res.append(('C03-segments-lost-or-invented', 'find_groups=%s lost=%r\ninput  %r\noutput %r' % (
                    fg, lost, text[:400], out[:400])))
        else:
            for (n, a), (_, b) in zip(want, got):
                if a != b:
                    res.append(('C03-leaves-differ', 'find_groups=%s segment %s\ninput leaves  %r\noutput leaves %r' % (
                        fg, n, a, b)))
                    break
    else:
        fn = flatten_names(msg)
        if fn != [x[0] for x in want]:
            res.append(('C03-tree-order-differs-from-text', 'flattened %r vs %r' % (fn, [x[0] for x in want])))
    return res


def replay(case, acc):
    return check(case)


def _run(case, acc):
    pools = case['pools']
    names = [l[:3] for l in case['text'].split('\r')][1:]
    nt = any(p != 'in-structure' for p in pools) or len(set(names)) < len(names) or bool(case['flags']) \
        or case['mkind'] != 'standard'
    acc.case(h([case['text'], case['find_groups']]), nt, sample=case, label='%s:fg=%s' % (case['mkind'], case['find_groups']))
    for p in set(pools):
        acc.label('pool:' + p)
    for f in case['flags']:
        acc.label('flag:' + f)
    return check(case, acc)


def run_shard(shard, acc):
    hyp_collect(acc, cases(shard['versions']), _run, shard['seed'], shard['n'], shard['shrink'])


def finish(acc, tier, seed):
    rej = sum(n for k, n in acc.extra.items() if k.startswith('rejected:'))
    if acc.evaluations and rej > 0.6 * acc.evaluations:
        raise RuntimeError('generator health: %d of %d cases rejected by the parser' % (rej, acc.evaluations))
    return {'rejected_by_parser': rej}


def plan(tier, seed):
    n, k = (16, 250) if tier == 'quick' else (48, 1200)
    return [{'versions': [T.VERSIONS[(i + j) % 12] for j in range(0, 12, 4)] if tier == 'quick' else T.VERSIONS,
             'seed': seed * 1000 + i, 'n': k, 'shrink': tier != 'quick'} for i in range(n)]
