"""C10 - the element tree stays internally consistent through any API history."""
from hv import tables as T
from hv import forest as F
from hv.common import hyp_collect, h

ID = 'C10'
LEVEL = 'exploration'
EXHAUSTIVE = {}
RULE = ('model-free invariant checking over operation histories: Hypothesis draws a list of up to 14 (quick) / 30 (thorough) JSON '
        'operations over a forest of three messages (TOLERANT and STRICT of one version, TOLERANT of another) and a pool of free '
        'elements: construct, attach by add / assignment / indexed assignment / add_<child>, re-attach an already attached element under '
        'another parent, traversal reads and writes, delete by name / index / remove / pop / del children[i], children = [...], value = '
        'text, datatype changes, Message.value, including calls built to be rejected (wrong class or name, version / level mismatch, '
        'cardinality overflow, invalid values). After every step, for every element reachable from every root: listed children name '
        'the lister as parent; no object is listed twice or by two parents; list, name index, iteration, len, containment, positional '
        'and by-name lookup agree in order; traversal indexes are disjoint from the list; one version and one level per tree; every '
        'element that names a parent is listed by it. Non-trivial = a history containing a re-attachment, a rejected call or a '
        'deletion after a traversal read; distinct by hash of (cell, operations).')
ASSUMPTIONS = [
    'elements are addressed by (root, child-index path) modulo the current sizes; operations that cannot be set up are skipped and counted',
    'an element listed by nobody and naming no parent is free (not a violation)',
]
TECHNIQUE = 'stateful property-based testing: Hypothesis operation lists over a forest, structural invariants checked after every step'
LEVEL_TEXT = 'exploration: sampled API histories over 3 message structures x 12 version pairs, invariants evaluated after every operation'
LEVEL_NOTE = 'trusted: the invariant checker in hv/forest.py (about 70 lines); it reads ElementList.list/indexes/traversal_indexes to cross-check the public views'


def check(case, acc=None):
    try:
        f = F.Forest(case['cell'])
    except Exception as e:
        return [('C10-setup-raises:%s' % type(e).__name__, str(e)[:200])]
    flags = set()
    read_seen = False
    for n, op in enumerate(case['ops']):
        a = f.apply(op)
        if acc is not None:
            acc.extra['op:' + a.kind.split(':')[0]] += 1
            if a.raised is not None:
                acc.extra['rejected:' + a.kind.split(':')[0]] += 1
        if 'reattach' in a.kind:
            flags.add('reattach')
        if a.raised is not None:
            flags.add('rejected')
        if a.kind in ('read', 'twrite'):
            read_seen = True
        if read_seen and a.kind in ('del_name', 'del_idx', 'remove', 'pop', 'del_child') and a.raised is None:
            flags.add('delete-after-read')
        vs = F.check_forest(f)
        if vs:
            case['_flags'] = flags
            sig, detail = vs[0]
            outcome = 'rejected' if a.raised is not None else 'accepted'
            return [('%s:after:%s:%s' % (sig, a.kind, outcome), 'step %d %r (%s%s): %s' % (
                n + 1, op, outcome, ': ' + F._exc(a.raised) if a.raised is not None else '', detail))]
    case['_flags'] = flags
    return []


def replay(case, acc):
    return check(case)


def _run(case, acc):
    vs = check(case, acc)
    flags = case.pop('_flags', set())
    acc.case(h([case['cell'], case['ops']]), bool(flags), sample=case, label='history')
    for fl in flags:
        acc.label('with:' + fl)
    return vs


def run_shard(shard, acc):
    hyp_collect(acc, F.histories(shard['cells'], shard['max_ops']), _run, shard['seed'], shard['n'], shard['shrink'], rounds=6)


def plan(tier, seed):
    cells = F.forest_cells()
    n, k, mo = (16, 200, 14) if tier == 'quick' else (48, 1500, 30)
    return [{'cells': cells[i % len(cells)::max(1, len(cells) // 4)] or cells, 'seed': seed * 1000 + i, 'n': k, 'max_ops': mo,
             'shrink': tier != 'quick'} for i in range(n)]
