"""C09 - child mutations behave like edits of an ordered list (model-based, operation sequences)."""
import itertools

from hypothesis import strategies as st

from hv import tables as T
from hv import refmodel as R
from hv import lit
from hv.common import hyp_collect, h
from hv.props.c14 import admissible_longnames, spell_ok

ID = 'C09'
LEVEL = 'exploration'
EXHAUSTIVE = {}
RULE = ('model-based testing over operation sequences: a sequence of JSON operations {set by name / lower case / long name, set by '
        'index, add(Element), add_<child>() + value, assignment of an Element, delete by name, delete by index, children.remove, '
        'copy from another element followed by a mutation of the source} is applied to a real element (segment with its fields incl. '
        'Z-/open-ended segments; message or group with its segments; field with its components) and to a plain reference model '
        '(per child name an ordered list of repetition texts + creation order); after every step the encoding and the per-name '
        'repetition lists must equal the model. Sequences: all sequences of length <= 3 over a fixed 10-operation alphabet '
        '(exhaustive part) and Hypothesis-drawn sequences of up to 25 operations over drawn (version, element) cells. Non-trivial = '
        'a replace or delete executed while some child has >= 2 repetitions; distinct by hash of (cell, operation sequence).')
ASSUMPTIONS = [
    'TOLERANT validation (cardinalities are not enforced, so any number of repetitions is a legal history)',
    'a delete that addresses no real child may raise or do nothing; the model only requires that nothing real changes',
    'groups/messages encode children in creation order under TOLERANT (documented); segments/fields in structure order',
    'values are valid literals of the addressed datatype, pairwise different, so a misplaced repetition is visible',
]
TECHNIQUE = 'model-based operation-sequence testing (Hypothesis lists of operations shrunk as one value + exhaustive short sequences) against an ordered-list reference model'
LEVEL_TEXT = 'exploration: exhaustive sequences of length <= 3 over a fixed alphabet, sampled sequences up to 25 steps over table-drawn elements of every version'
LEVEL_NOTE = 'trusted: the 60-line reference model in this module and the reference encoder'

TOL = 2
SPELLS = ('name', 'lower', 'long')


def _exc(e):
    return '%s: %s' % (type(e).__name__, str(e)[:160])


# ------------------------------------------------------------------------------------------------
# worlds

class SegmentWorld(object):
    """a segment and its fields"""

    def __init__(self, cell):
        from hl7apy.core import Segment, Field
        from hl7apy import parser as P
        self.Field, self.Segment = Field, Segment
        self.v, self.s = cell['v'], cell['s']
        self.fields = cell['fields']              # list of [name, idx, longname or None, [values]]
        self.finfo = {f[0]: f for f in self.fields}
        self.el = Segment(self.s, version=self.v, validation_level=TOL)
        self.model = {}
        self.other = Segment(self.s, version=self.v, validation_level=TOL)
        for f_ in self.fields:
            setattr(self.other, f_[0], f_[3][-1])
        if cell.get('start'):
            # start from a parsed text: two repetitions of the first field, one of the last
            f0, f1 = self.fields[0], self.fields[-1]
            d = {f0[1]: f0[3][0] + '~' + f0[3][1]}
            self.model[f0[0]] = [f0[3][0], f0[3][1]]
            if f1[0] != f0[0]:
                d[f1[1]] = f1[3][2]
                self.model[f1[0]] = [f1[3][2]]
            self.el = P.parse_segment(R.enc_segment(self.s, d, R.DEFAULT_EC), version=self.v, validation_level=TOL)

    def spelled(self, name, how):
        f = self.finfo[name]
        if how == 'lower':
            return name.lower()
        if how == 'long' and f[2]:
            return f[2].lower() if spell_ok(self.Segment, f[2].lower()) else f[2]
        return name

    def expected(self):
        d = {}
        for name, reps in self.model.items():
            if reps:
                d[self.finfo[name][1]] = '~'.join(reps)
        return R.enc_segment(self.s, d, R.DEFAULT_EC)

    def make(self, name, val):
        if not self.s.startswith('Z') and name not in T.lib(self.v).FIELDS:
            # field beyond the table of an open-ended segment: a stand-alone Field needs its datatype spelled out
            f = self.Field(name, datatype='varies', version=self.v, validation_level=TOL)
        else:
            f = self.Field(name, version=self.v, validation_level=TOL)
        f.value = val
        return f

    def add_child(self, name, val):
        f = self.el.add_field(name)
        f.value = val

    def names(self):
        return [f[0] for f in self.fields]

    def text_of(self, child):
        return child.to_er7()


class ListWorld(object):
    """a message or a group and its segments (creation order matters)"""

    def __init__(self, cell):
        from hl7apy.core import Message, Group, Segment
        self.Segment = Segment
        self.v = cell['v']
        self.fields = cell['fields']              # [segment name, None, None, [texts]]
        self.finfo = {f[0]: f for f in self.fields}
        TOL = self.lvl = cell.get('lvl', 2)       # a Z-message takes any segment under STRICT too: such a world is STRICT throughout
        if cell['kind'] == 'message':
            self.el = Message(cell['s'], version=self.v, validation_level=TOL)
            self.el.msh.msh_7 = '20200101'
            self.order = [['MSH', self.el.msh.to_er7()]]
        else:
            self.el = Group(cell['s'], version=self.v, validation_level=TOL)
            self.order = []
        self.other = Group(cell['s'], version=self.v, validation_level=TOL) if cell['kind'] != 'message' else \
            Message(cell['s'], version=self.v, validation_level=TOL)
        for f_ in self.fields:
            setattr(self.other, f_[0], f_[3][-1])

    @property
    def model(self):
        d = {}
        for n, t in self.order:
            d.setdefault(n, []).append(t)
        return d

    def spelled(self, name, how):
        if hasattr(type(self.el), name.lower()):
            return name         # the ADD segment: `message.add` is the method, only the upper-case spelling reaches the child
        return name.lower() if how in ('lower', 'long') else name

    def expected(self):
        return '\r'.join(t for n, t in self.order)

    def make(self, name, val):
        s = self.Segment(name, version=self.v, validation_level=self.lvl)
        s.value = val
        return s

    def add_child(self, name, val):
        s = self.el.add_segment(name)
        s.value = val

    def names(self):
        return [f[0] for f in self.fields]


class FieldWorld(SegmentWorld):
    """a field and its components (no duplicates: components do not repeat)"""

    def __init__(self, cell):
        from hl7apy.core import Field, Component
        self.Component, self.Field = Component, Field
        self.v, self.s = cell['v'], cell['s']
        self.fields = cell['fields']              # [component name, j, longname, [values]]
        self.finfo = {f[0]: f for f in self.fields}
        self.el = Field(self.s, version=self.v, validation_level=TOL)
        self.other = Field(self.s, version=self.v, validation_level=TOL)
        for f_ in self.fields:
            setattr(self.other, f_[0], f_[3][-1])
        self.model = {}

    def spelled(self, name, how):
        f = self.finfo[name]
        if how == 'lower':
            return name.lower()
        if how == 'long' and f[2]:
            return f[2].lower() if spell_ok(self.Field, f[2].lower()) else f[2]
        return name

    def expected(self):
        n = max([self.finfo[k][1] for k, r in self.model.items() if r] or [0])
        out = ['' for _ in range(n)]
        for k, r in self.model.items():
            if r:
                out[self.finfo[k][1] - 1] = r[0]
        return '^'.join(out)

    def make(self, name, val):
        c = self.Component(name, version=self.v, validation_level=TOL)
        c.value = val
        return c

    def add_child(self, name, val):
        c = self.el.add_component(name)
        c.value = val


def make_world(cell):
    k = cell['kind']
    if k == 'segment':
        return SegmentWorld(cell)
    if k == 'field':
        return FieldWorld(cell)
    return ListWorld(cell)


# ------------------------------------------------------------------------------------------------
# the interpreter: applies one operation to the real element and to the model

def _model_reps(w, name):
    if isinstance(w, ListWorld):
        return [t for n, t in w.order if n == name]
    return w.model.setdefault(name, [])


def _model_set(w, name, i, val):
    """assignment: replace the addressed repetition in place, append when absent"""
    if isinstance(w, ListWorld):
        pos = [k for k, (n, t) in enumerate(w.order) if n == name]
        if -len(pos) <= i < len(pos):
            w.order[pos[i]][1] = val
        else:
            w.order.append([name, val])
    else:
        reps = w.model.setdefault(name, [])
        if -len(reps) <= i < len(reps):
            reps[i] = val
        else:
            reps.append(val)


def _model_append(w, name, val):
    if isinstance(w, ListWorld):
        w.order.append([name, val])
    else:
        w.model.setdefault(name, []).append(val)


def _model_del(w, name, i):
    if isinstance(w, ListWorld):
        pos = [k for k, (n, t) in enumerate(w.order) if n == name]
        del w.order[pos[i]]
    else:
        del w.model[name][i]


def apply_op(w, op):
    """-> (list of violations, executed_kind) ; raises nothing"""
    name = op['f']
    info = w.finfo[name]
    vals = info[3]
    val = vals[op.get('k', 0) % (len(vals) - 1)]        # the last value is reserved for the 'other' element
    kind = op['op']
    el = w.el
    reps = _model_reps(w, name)
    single = isinstance(w, FieldWorld)
    try:
        if kind == 'set':
            setattr(el, w.spelled(name, op.get('spell', 'name')), val)
            _model_set(w, name, 0, val)
        elif kind == 'setidx':
            i = op['i']
            if single and not (-len(reps) <= i < len(reps)) and reps:
                return [], 'skipped'
            getattr(el, name)[i] = val
            _model_set(w, name, i, val)
        elif kind == 'set_at':
            # item assignment on the child list itself: children[i] = text replaces the i-th child, whatever its name
            kids = el.children
            if not len(kids):
                return [], 'skipped'
            i = op['i'] if -len(kids) <= op['i'] < len(kids) else op['i'] % len(kids)
            target = kids[i]
            cname = target.name
            if cname not in w.finfo:
                return [], 'skipped'
            cvals = w.finfo[cname][3]
            cval = cvals[op.get('k', 0) % (len(cvals) - 1)]
            j = sum(1 for c in list(kids)[:list(kids).index(target)] if c.name == cname)
            kids[i] = cval
            _model_set(w, cname, j, cval)
        elif kind == 'set_element':
            setattr(el, name, w.make(name, val))
            _model_set(w, name, 0, val)
        elif kind == 'add':
            if single and reps:
                return [], 'skipped'
            el.add(w.make(name, val))
            _model_append(w, name, val)
        elif kind == 'add_child':
            if single and reps:
                return [], 'skipped'
            w.add_child(name, val)
            _model_append(w, name, val)
        elif kind == 'del':
            try:
                delattr(el, w.spelled(name, op.get('spell', 'name')))
                ok = True
            except Exception:
                ok = False
            if reps:
                if not ok:
                    return [('C09-delete-of-present-child-rejected', 'del %s with %d repetitions' % (name, len(reps)))], kind
                _model_del(w, name, 0)
        elif kind == 'delidx':
            i = op['i']
            try:
                del getattr(el, name)[i]
                ok = True
            except Exception:
                ok = False
            inside = -len(reps) <= i < len(reps)
            if inside and not ok:
                return [('C09-delete-of-present-child-rejected', 'del %s[%d] with %d repetitions' % (name, i, len(reps)))], kind
            if inside:
                _model_del(w, name, i)
            # a delete of an absent index may raise or do nothing (checked below: nothing real changes)
        elif kind == 'remove':
            i = op['i']
            if -len(reps) <= i < len(reps):
                el.children.remove(getattr(el, name)[i])
                _model_del(w, name, i)
            else:
                return [], 'skipped'
        elif kind == 'del_at':
            # positional deletion on the child list itself: del children[i] removes the i-th child, whatever its name
            kids = el.children
            if not len(kids):
                return [], 'skipped'
            i = op['i'] if -len(kids) <= op['i'] < len(kids) else op['i'] % len(kids)
            target = kids[i]
            cname = target.name
            if cname not in w.finfo:
                return [], 'skipped'
            j = sum(1 for c in list(kids)[:list(kids).index(target)] if c.name == cname)
            if op.get('pop'):
                kids.pop(i)
            else:
                del kids[i]
            _model_del(w, cname, j)
        elif kind == 'set_datatype':
            # a datatype object assigned by name: only where the child is of that base datatype
            dt = info[5] if len(info) > 5 else None
            if not dt:
                return [], 'skipped'
            obj = T.lib(w.v).BASE_DATATYPES[dt](val) if dt not in ('NM', 'SI', 'DT', 'TM', 'DTM') else None
            if obj is None:
                from hl7apy.factories import datatype_factory
                obj = datatype_factory(dt, val, w.v, 2)
            bad = op.get('bad', 0)
            if op.get('hl') and not bad and dt in ('ST', 'TX', 'FT') and len(val) >= 2 and val.isalnum():
                # a textual object with a highlighted first character: the element encodes the highlight markers
                obj = T.lib(w.v).BASE_DATATYPES[dt](val, highlights=[(0, 1)])
                setattr(el, w.spelled(name, op.get('spell', 'name')), obj)
                _model_set(w, name, 0, '\\H\\' + val[:1] + '\\N\\' + val[1:])
                return [], kind
            if bad == 1:
                # an object built elsewhere (TOLERANT) holding one character more than the datatype allows
                mx = getattr(obj, 'max_length', None)
                if not mx or mx > 5000 or dt in ('NM', 'SI', 'DT', 'TM', 'DTM', 'TN'):
                    return [], 'skipped'
                val = 'x' * (mx + 1)
                obj = T.lib(w.v).BASE_DATATYPES[dt](val, validation_level=2)
            elif bad == 3:
                # an object built under STRICT whose class takes a value that the datatype does not (a negative SI, NM not-a-number)
                if dt not in ('SI', 'NM'):
                    return [], 'skipped'
                from decimal import Decimal
                val = '-1' if dt == 'SI' else 'NaN'
                obj = T.lib(w.v).BASE_DATATYPES[dt](-1 if dt == 'SI' else Decimal('NaN'), validation_level=1)
            elif bad == 2:
                # an object of another base datatype
                other = 'ST' if dt != 'ST' else 'NM'
                val = 'abc' if other == 'ST' else '7'
                obj = T.lib(w.v).BASE_DATATYPES[other](val if other == 'ST' else 7)
            if bad:
                # such an object may be refused (by either level): then nothing has happened
                from hl7apy.exceptions import HL7apyException
                try:
                    setattr(el, w.spelled(name, op.get('spell', 'name')), obj)
                except (HL7apyException, ValueError):
                    return [], 'skipped'
            else:
                setattr(el, w.spelled(name, op.get('spell', 'name')), obj)
            _model_set(w, name, 0, val)
        elif kind == 'read':
            # navigation below the child (two levels when the tables allow it), with a few observations: no effect on the model
            proxy = getattr(el, w.spelled(name, op.get('spell', 'name')))
            len(proxy), list(proxy), repr(proxy)
            deeper = info[4] if len(info) > 4 else None
            if deeper:
                q = getattr(proxy, deeper[0])
                len(q), repr(q)
                q.to_er7()
                if len(deeper) > 1:
                    getattr(q, deeper[1]).to_er7()
            else:
                proxy.to_er7()
        elif kind == 'move':
            # the child ELEMENT of another element (not a proxy of it) assigned by name or by index: whether it is moved or
            # copied, it replaces the addressed repetition in place
            i = op['i'] if op.get('by') == 'index' else 0
            if single and not (-len(reps) <= i < len(reps)) and reps:
                return [], 'skipped'
            child = getattr(w.other, name)[0]
            if op.get('by') == 'index':
                getattr(el, name)[i] = child
            else:
                setattr(el, name, child)
            _model_set(w, name, i, vals[-1])
            # the library moves the element (the statement would equally allow a copy by value): what must not happen is one
            # and the same object listed by both elements
            if any(c is child for c in w.other.children) and any(c is child for c in el.children):
                return [('C09-assigned-child-listed-by-both-elements', '%s: %r' % (name, child))], kind
            setattr(w.other, name, vals[-1])        # the other element as it was, for the operations that follow
        elif kind == 'copy':
            src = getattr(w.other, name)
            donor_before = w.other.to_er7()
            setattr(el, name, src)
            _model_set(w, name, 0, vals[-1])
            if w.other.to_er7() != donor_before:
                return [('C09-copy-changed-the-source', '%s: source encoded %r before and %r after the copy' % (
                    name, donor_before, w.other.to_er7()))], kind
            # later edits of the source - in place and by replacement - must stay invisible in the copy
            getattr(w.other, name)[0].value = vals[0]
            vs = compare(w)
            if vs:
                return [('C09-copy-is-not-by-value', 'after editing the source child in place: ' + vs[0][1])], kind
            getattr(w.other, name)[0].value = vals[-1]
            setattr(w.other, name, vals[0])
            setattr(w.other, name, vals[-1])
        else:
            raise ValueError(kind)
    except Exception as e:
        return [('C09-operation-raises:%s:%s' % (kind, type(e).__name__), '%s: %s' % (op, _exc(e)))], kind
    return [], kind


def compare(w):
    out = []
    try:
        got = w.el.to_er7()
    except Exception as e:
        return [('C09-encode-raises:%s' % type(e).__name__, _exc(e))]
    exp = w.expected()
    if got != exp:
        out.append(('C09-encoding-differs-from-model', 'encoded %r, model %r' % (got, exp)))
    model = w.model
    for name in w.names():
        try:
            have = [c.to_er7() for c in getattr(w.el, name)]
        except Exception as e:
            out.append(('C09-read-raises:%s' % type(e).__name__, '%s: %s' % (name, _exc(e))))
            continue
        if have != model.get(name, []):
            out.append(('C09-repetition-list-differs-from-model', '%s: element has %r, model %r' % (name, have, model.get(name, []))))
            break
    return out


def check(case, acc=None):
    try:
        w = make_world(case['cell'])
    except Exception as e:
        if type(e).__name__ == 'InvalidName':
            # a component name of an embedded structure that the version's tables do not define stand-alone (v2.8.2 LA2_n)
            if acc is not None:
                acc.excluded['element name not defined stand-alone in this version'] += 1
            return []
        return [('C09-setup-raises:%s' % type(e).__name__, _exc(e))]
    nontrivial = False
    first = compare(w)
    if first:
        return [(s, 'before any operation: ' + d) for s, d in first]
    for n, op in enumerate(case['ops']):
        many = any(len(r) >= 2 for r in w.model.values())
        vs, kind = apply_op(w, op)
        if many and kind in ('set', 'setidx', 'set_element', 'set_datatype', 'del', 'delidx', 'remove', 'copy', 'move', 'del_at'):
            nontrivial = True
        vs = vs or compare(w)
        if vs:
            case['_nontrivial'] = nontrivial
            kindtag = 'replace' if kind in ('set', 'setidx', 'set_element', 'copy', 'move') else kind
            return [('%s:%s:%s' % (s, case['cell']['kind'], kindtag), 'after step %d %r: %s' % (n + 1, op, d)) for s, d in vs[:1]]
    case['_nontrivial'] = nontrivial
    return []


def replay(case, acc):
    return check(case)


# ------------------------------------------------------------------------------------------------
# cells and strategies

def _vals(v, ref):
    dt = lit.first_leaf_dt(T, v, ref)
    return [lit.valid(dt, k) for k in range(5)]


def _deeper(v, ref):
    """names of a component (and a sub-component) below a field reference, for traversal reads"""
    ch = T.ref_children(v, ref)
    if not ch:
        return None
    c = ch[-1]
    sub = T.ref_children(v, c[2])
    return [c[0]] + ([sub[0][0]] if sub else [])


def segment_cell(v, s, picks, start=False):
    rows = T.seg_fields(v, s)
    from hl7apy.core import Segment
    longs = admissible_longnames(rows, Segment)
    fields = []
    for r in picks:
        name, i, ref, card = rows[r]
        bdt = ref[2] if (ref[2] and ref[2] != 'varies' and T.is_base(v, ref[2]) and ref[2] != 'TN') else None
        fields.append([name, i, longs.get(name), _vals(v, ref), _deeper(v, ref), bdt])
    return {'kind': 'segment', 'v': v, 's': s, 'fields': fields, 'start': start}


def zsegment_cell(v, s, idxs):
    last = 0 if s.startswith('Z') else T.seg_fields(v, s)[-1][1]
    return {'kind': 'segment', 'v': v, 's': s, 'start': False,
            'fields': [['%s_%d' % (s, last + i), last + i, None, list(lit._TXT)] for i in idxs]}


def list_cell(v, m, kind, names):
    fields = []
    for n in names:
        rows = T.seg_fields(v, n)
        # the first field that is not withdrawn (STRICT worlds cannot populate a withdrawn one)
        first = next((r for r in rows if r[3][1] != 0 and r[2][2] != 'WD'), rows[0])
        dt = lit.first_leaf_dt(T, v, first[2])
        fields.append([n, None, None, ['%s%s%s' % (n, '|' * first[1], lit.valid(dt, k)) for k in range(5)],
                       [first[0]] + (_deeper(v, first[2]) or [])[:1]])
    return {'kind': kind, 'v': v, 's': m, 'fields': fields}


def field_cell(v, fname, ref, picks):
    from hl7apy.core import Field
    ch = T.ref_children(v, ref)
    longs = admissible_longnames(ch, Field)
    return {'kind': 'field', 'v': v, 's': fname,
            'fields': [[ch[j][0], ch[j][1], longs.get(ch[j][0]), _vals(v, ch[j][2]),
                        [T.ref_children(v, ch[j][2])[0][0]] if T.ref_children(v, ch[j][2]) else None] for j in picks]}


@st.composite
def cells(draw, versions):
    v = draw(st.sampled_from(versions))
    k = draw(st.integers(0, 9))
    if k < 4:
        s = draw(st.sampled_from([x for x in T.segments(v) if x != 'MSH']))
        rows = T.seg_fields(v, s)
        picks = sorted(set(draw(st.lists(st.integers(0, len(rows) - 1), min_size=1, max_size=4))))
        return segment_cell(v, s, picks, start=draw(st.booleans()))
    if k < 5:
        opens = [x for x in T.segments(v) if T.seg_fields(v, x)[-1][2][2] == 'varies']
        s = draw(st.sampled_from(['ZXX', 'ZA1'] + opens[:3]))
        idxs = sorted(set(draw(st.lists(st.integers(1, 12), min_size=2, max_size=4))))
        return zsegment_cell(v, s, idxs)
    if k < 8:
        kind = draw(st.sampled_from(['message', 'group', 'message', 'group', 'zmessage']))
        if kind == 'zmessage':
            # a Z-message has no structure: every segment is accepted at either level and encoded where it was put
            pool = [x for x in T.segments(v) if x != 'MSH' and not T.segment_defect(v, x)]
            names = sorted(set(draw(st.lists(st.sampled_from(pool), min_size=1, max_size=3))))
            cell = list_cell(v, draw(st.sampled_from(['ZDT_ZDT', 'ZZZ_Z01'])), 'message', names)
            cell['lvl'] = draw(st.sampled_from([1, 1, 2]))
            return cell
        if kind == 'message':
            cand = [m for m in T.messages(v) if '_' in m]
            m = draw(st.sampled_from(cand))
            ref = T.message_ref(v, m)
        else:
            groups = sorted(T.lib(v).GROUPS)
            m = draw(st.sampled_from(groups))
            ref = T.lib(v).GROUPS[m]
        names = []
        for n, r, card, kd in T.struct_children(ref):
            if kd == 'SEG' and n != 'MSH' and n not in names and n not in T.PSEUDO_SEGMENTS and not T.segment_defect(v, n):
                names.append(n)
        if len(names) < 1:
            return segment_cell(v, 'PID', [0, 2], False)
        picks = sorted(set(draw(st.lists(st.integers(0, len(names) - 1), min_size=1, max_size=3))))
        return list_cell(v, m, kind, [names[i] for i in picks])
    s = draw(st.sampled_from([x for x in T.segments(v)]))
    cx = [r for r in T.seg_fields(v, s) if T.ref_children(v, r[2]) and not (s == 'MSH' and r[1] < 3)]
    if not cx:
        return segment_cell(v, 'PID', [0, 2], False)
    fname, i, ref, card = draw(st.sampled_from(cx))
    ch = T.ref_children(v, ref)
    picks = sorted(set(draw(st.lists(st.integers(0, len(ch) - 1), min_size=1, max_size=4))))
    return field_cell(v, fname, ref, picks)


OPS = ('set', 'setidx', 'set_element', 'add', 'add_child', 'del', 'delidx', 'remove', 'copy', 'read', 'read', 'set_datatype', 'set_at', 'move', 'del_at')


@st.composite
def op_for(draw, cell):
    names = [f[0] for f in cell['fields']]
    kind = draw(st.sampled_from(OPS + ('set', 'add', 'setidx')))
    op = {'op': kind, 'f': draw(st.sampled_from(names)), 'k': draw(st.integers(0, 3))}
    if kind in ('set', 'del', 'read', 'set_datatype'):
        op['spell'] = draw(st.sampled_from(SPELLS))
    if kind == 'set_datatype':
        op['bad'] = draw(st.sampled_from([0, 0, 1, 2, 3]))
        op['hl'] = draw(st.booleans())
    if kind in ('setidx', 'delidx', 'remove', 'set_at', 'move', 'del_at'):
        op['i'] = draw(st.integers(-4, 3))
    if kind == 'del_at':
        op['pop'] = draw(st.booleans())
    if kind == 'move':
        op['by'] = draw(st.sampled_from(['name', 'index']))
    return op


@st.composite
def cases(draw, versions, max_ops):
    cell = draw(cells(versions))
    ops = draw(st.lists(op_for(cell), min_size=1, max_size=max_ops))
    return {'cell': cell, 'ops': ops}


def _run(case, acc):
    vs = check(case, acc)
    acc.case(h([case['cell'], case['ops']]), case.pop('_nontrivial', False), sample=case, label='world:' + case['cell']['kind'])
    acc.extra['ops_executed'] += len(case['ops'])
    return vs


def exhaustive_short(acc, cell, maxlen):
    """all sequences of length <= maxlen over a fixed alphabet of 9 operations on one two-field cell"""
    f0 = cell['fields'][0][0]
    f1 = cell['fields'][-1][0]
    alphabet = [{'op': 'set', 'f': f0, 'k': 0, 'spell': 'name'}, {'op': 'set', 'f': f0, 'k': 1, 'spell': 'lower'},
                {'op': 'add', 'f': f0, 'k': 2}, {'op': 'add_child', 'f': f1, 'k': 0}, {'op': 'setidx', 'f': f0, 'k': 3, 'i': 1},
                {'op': 'del', 'f': f0, 'spell': 'name'}, {'op': 'delidx', 'f': f0, 'i': 1}, {'op': 'copy', 'f': f0}, {'op': 'read', 'f': f1, 'spell': 'lower'},
                {'op': 'set_element', 'f': f1, 'k': 1}]
    for L in range(1, maxlen + 1):
        for seq in itertools.product(alphabet, repeat=L):
            case = {'cell': cell, 'ops': [dict(o) for o in seq]}
            for sig, detail in check(case):
                acc.violation(sig, case, detail)
            acc.case(None, case.pop('_nontrivial', False), enumerated=True, label='exhaustive:' + cell['kind'])


def run_shard(shard, acc):
    if shard['kind'] == 'exhaustive':
        exhaustive_short(acc, shard['cell'], shard['maxlen'])
        return
    hyp_collect(acc, cases(shard['versions'], shard['max_ops']), _run, shard['seed'], shard['n'], shard['shrink'])


def plan(tier, seed):
    shards = []
    ex = [segment_cell('2.5', 'PID', [2, 12]), segment_cell('2.3', 'NK1', [1, 4], start=True), zsegment_cell('2.6', 'ZXX', [1, 3]),
          list_cell('2.5', 'ADT_A01', 'message', ['NK1', 'OBX']), list_cell('2.4', 'ADT_A01_INSURANCE', 'group', ['IN1', 'IN3']),
          segment_cell('2.8', 'OBX', [2, 4]), list_cell('2.7', 'ORU_R01', 'message', ['SFT']), segment_cell('2.2', 'PID', [2, 4])]
    for c in ex if tier == 'thorough' else ex[:5]:
        shards.append({'kind': 'exhaustive', 'cell': c, 'maxlen': 3})
    n, k, mo = (11, 250, 14) if tier == 'quick' else (40, 1500, 25)
    for i in range(n):
        shards.append({'kind': 'random', 'versions': T.VERSIONS, 'seed': seed * 1000 + i, 'n': k, 'max_ops': mo,
                       'shrink': tier != 'quick'})
    return shards
