"""C19 - concurrent use gives the same results as sequential use."""
import sys
import random
import threading

from hypothesis import strategies as st

from hv import tables as T
from hv import refmodel as R
from hv import strategies as S
from hv import lit
from hv import sched
from hv.common import hyp_collect, h

ID = 'C19'
LEVEL = 'exploration'
EXHAUSTIVE = {}
RULE = ('tasks = closures drawn from a corpus over all versions and both levels (parse a message, parse a segment, build a message '
        'through traversal, construct many stand-alone elements, encode textual datatypes with highlights, validate, datatype_factory '
        'for every base datatype with valid and invalid values, load_library); each task\'s result (value or exception type and text) '
        'is first computed alone, twice. Schedules owned by the harness: (1) single preemption, enumerated: task A runs under '
        'sys.settrace and is suspended before a chosen source location (first execution; thorough: also a later one), task B then runs to completion, A resumes - '
        'for every distinct location A executes in the small shared modules (factories, utils, base_datatypes, package __init__ files) and in the table / '
        'structure lookups (all of them for short tasks A and in the thorough tier; at most 60 per pair for long tasks in the quick tier), for the other lookup functions of core, parser and validation (capped per pair in the quick tier) and for a '
        'sample of its remaining locations; B is taken from another version family; (2) token-passing '
        'interleavings of 2-4 traced tasks with Hypothesis-drawn (thread, lines) slices; (3) stress: the same tasks on 16 free-running '
        'threads with switch interval 1e-6; (4) cold start: a fresh interpreter per case in which 2-6 threads make the first use of one '
        'version (parse, build, datatype_factory, table lookups, validate) at staggered moments spanning the lazy import of its tables, '
        'compared with the same calls made alone afterwards. Oracle: every task returns exactly its solo result; the process-wide defaults and every '
        'version\'s BASE_DATATYPES dict are unchanged afterwards. Non-trivial = a schedule with at least one forced switch between '
        'two tasks of different versions or levels; distinct by (task pair, preemption point) or (task set, slices).')
ASSUMPTIONS = [
    'line granularity: an interleaving inside one source line (between byte codes) is reached only by the stress mode, whose silence proves nothing',
    'the library is pure Python; no C-level shared state is suspected',
]
TECHNIQUE = 'harness-owned thread schedules (enumerated single preemptions via sys.settrace, Hypothesis-drawn token-passing slices) + free-running stress; solo-result differential oracle'
LEVEL_TEXT = ('exploration with a systematic core: all single-preemption interleavings of sampled task pairs at the shared-state touch '
              'points, sampled multi-switch schedules, and a stress run that is reported as weak evidence')
LEVEL_NOTE = 'trusted: the tracer/scheduler in hv/sched.py; tasks must be deterministic alone (checked: each solo result is computed twice)'

TOUCH_FILES = ('factories.py', 'utils.py', 'base_datatypes.py', '__init__.py', 'validation.py', 'consts.py', 'exceptions.py')
TOUCH_FUNCS = ('get_structure', '_parse_structure', 'find_child_reference', '_find_structure', 'is_base_datatype', 'load_library',
               'load_reference', 'find_reference', 'get', 'find', 'create_element', 'datatype_factory', '_get_segment_reference',
               'get_message_info', '_split_msh', '_escape_value', '_get_translations', 'encoding_chars', '_get_encoding_chars',
               '_find_name', '_default_child_lookup', '__init__')


TIER1_FUNCS = ('get_structure', 'is_base_datatype', 'load_library', 'load_reference', 'find_reference', 'get', 'find',
               'datatype_factory', '_escape_value', '_get_translations')


def select_touch(key):
    fn, func, line = key
    return fn in TOUCH_FILES or func in TOUCH_FUNCS


def select_tier1(key):
    """the small shared modules and the table / structure lookups: always enumerated completely"""
    fn, func, line = key
    return (fn in TOUCH_FILES and func != '__init__' and fn != 'validation.py') or func in TIER1_FUNCS


def family(v):
    k = T.vkey(v) if v else [0]
    return 0 if k < [2, 5] else (1 if k < [2, 7] else 2)


def select_all(key):
    return True


# ---------------------------------------------------------------------------------------------
# tasks

def _msg_text(v, m='ADT_A01', n=0):
    ec = R.DEFAULT_EC
    lines = ['MSH|^~\\&|SND%d|FAC|RCV|FAC|2020010112%02d||%s|ID%d|P|%s' % (n, n % 60, S.msh9_text(v, m, ec), n, v),
             'EVN|A01|20200101', 'PID|1||ID%d^^^HOSP||DOE^JOHN%d||19700101|M' % (n, n), 'NK1|1|ROE^JANE', 'PV1|1|I', 'ZXX|%d|a^b' % n]
    return '\r'.join(lines)


def make_task(spec):
    from hl7apy import parser as P
    from hl7apy import core
    from hl7apy.factories import datatype_factory
    import hl7apy
    k = spec['t']
    if k == 'parse':
        def f():
            m = P.parse_message(spec['text'], validation_level=spec['level'], find_groups=spec['fg'])
            r = m.validate(return_errors=True)
            return [m.to_er7(), [str(e) for e in r.errors][:5], len(r.warnings)]
        return f
    if k == 'segment':
        return lambda: P.parse_segment(spec['text'], version=spec['v'], validation_level=spec['level']).to_er7()
    if k == 'build':
        def f():
            m = core.Message('ADT_A01', version=spec['v'], validation_level=spec['level'])
            m.msh.msh_7 = '20200101'
            m.msh.msh_9 = S.msh9_text(spec['v'], 'ADT_A01', R.DEFAULT_EC)
            m.msh.msh_10 = 'X%d' % spec['n']
            m.pid.pid_5 = 'DOE^J%d' % spec['n']
            m.pid.pid_3 = '12%d' % spec['n']
            m.evn.evn_2 = '20200101'
            return m.to_er7()
        return f
    if k == 'standalone':
        def f():
            out = []
            for s in spec['segs']:
                seg = core.Segment(s, version=spec['v'], validation_level=2)
                rows = T.seg_fields(spec['v'], s)
                fl = core.Field(rows[0][0], version=spec['v'])
                out.append((seg.name, len(seg.ordered_children), fl.datatype))
            return out
        return f
    if k == 'encode':
        def f():
            cls = T.lib(spec['v']).BASE_DATATYPES[spec['dt']]
            o = cls(spec['value'], highlights=spec['hl']) if spec['hl'] else cls(spec['value'])
            return o.to_er7(R.full(spec['ec']))
        return f
    if k == 'factory':
        def f():
            o = datatype_factory(spec['dt'], spec['value'], spec['v'], spec['level'])
            return [type(o).__name__, o.to_er7(R.full(R.DEFAULT_EC))]
        return f
    if k == 'grouptext':
        def f():
            # a message with delimiters of its own; a group of it assigned as text written with those delimiters
            m = core.Message(spec['m'], version=spec['v'], validation_level=2, encoding_chars=dict(spec['ec']))
            m.msh.msh_7 = '20200101'
            setattr(m, spec['g'], spec['text'])
            return [m.to_er7(), [c.name for c in getattr(m, spec['g'])[0].children]]
        return f
    if k == 'zfields':
        def f():
            # fields of locally defined / open-ended segments, written by name at scattered positions
            out = []
            for name, idxs in spec['segs']:
                seg = core.Segment(name, version=spec['v'], validation_level=2)
                for i in idxs:
                    setattr(seg, '%s_%d' % (name.lower(), i), 'v%d' % i)
                seg.add_field('%s_%d' % (name, max(idxs) + 2)).value = 'last'
                out.append(seg.to_er7())
            return out
        return f
    if k == 'load':
        return lambda: sorted(hl7apy.load_library(spec['v']).BASE_DATATYPES)
    raise ValueError(k)


def corpus(seed, n=40):
    rnd = random.Random(seed)
    out = []
    for i in range(n):
        v = rnd.choice(T.VERSIONS)
        level = rnd.choice([1, 2, 2])
        k = rnd.choice(['parse', 'parse', 'segment', 'build', 'standalone', 'encode', 'factory', 'factory', 'factory', 'load', 'grouptext', 'zfields'])
        if k == 'zfields':
            out.append({'t': 'zfields', 'v': v, 'segs': [[rnd.choice(['ZXX', 'ZPD', 'ZA1']), sorted(rnd.sample(range(1, 9), 3))] for _ in range(3)]})
            continue
        if k == 'grouptext':
            cand = []
            for m in ('ADT_A01', 'ORU_R01', 'OML_O33', 'ADT_A08'):
                if m in T.lib(v).MESSAGES:
                    for gname, r, card, kd in T.struct_children(T.message_ref(v, m)):
                        segs = [c for c in T.struct_children(r) if c[3] == 'SEG'] if kd == 'GRP' else []
                        if segs and segs[0][0] in T.segments(v):
                            cand.append((m, gname, segs[0][0]))
            if not cand:
                out.append({'t': 'load', 'v': v})
                continue
            m, g, sname = rnd.choice(cand)
            ec = rnd.choice([{'FIELD': '!', 'COMPONENT': '$', 'SUBCOMPONENT': '%', 'REPETITION': '*', 'ESCAPE': '@'}, dict(R.DEFAULT_EC)])
            if T.vkey(v) >= [2, 7]:
                ec = dict(ec, TRUNCATION='#' if ec['FIELD'] == '|' else '+')
            out.append({'t': 'grouptext', 'v': v, 'm': m, 'g': g, 'ec': ec, 'text': R.enc_segment(sname, {1: '1', 2: 'a%d' % i}, R.full(ec))})
        elif k == 'parse':
            out.append({'t': 'parse', 'text': _msg_text(v, 'ADT_A01', i), 'level': 2, 'fg': rnd.random() < 0.7, 'v': v})
        elif k == 'segment':
            s = rnd.choice([x for x in T.segments(v) if x != 'MSH'])
            rows = T.seg_fields(v, s)
            name, idx, ref, card = rows[rnd.randrange(len(rows))]
            val = lit.valid(lit.first_leaf_dt(T, v, ref), i) if level == 1 else rnd.choice(['abc', lit.valid(lit.first_leaf_dt(T, v, ref), i)])
            out.append({'t': 'segment', 'v': v, 'text': R.enc_segment(s, {idx: val}, R.DEFAULT_EC), 'level': level})
        elif k == 'build':
            out.append({'t': 'build', 'v': v, 'level': 2, 'n': i})
        elif k == 'standalone':
            segs = [x for x in T.segments(v) if x != 'MSH']
            out.append({'t': 'standalone', 'v': v, 'segs': rnd.sample(segs, min(25, len(segs)))})
        elif k == 'encode':
            dts = sorted(T.textual_classes(v))
            dt = rnd.choice([d for d in dts if d != 'TN'])
            out.append({'t': 'encode', 'v': v, 'dt': dt, 'value': rnd.choice(['a|b^c', 'x\\y~z&w', 'plain text', '#trunc']),
                        'hl': rnd.choice([None, [[0, 2]], [[1, 3], [4, 6]]]), 'ec': dict(R.DEFAULT_EC_27 if T.vkey(v) >= [2, 7] else R.DEFAULT_EC)})
        elif k == 'factory':
            special = [d for d in ('DTM', 'GTS', 'TN', 'SNM', 'CM', 'IS', 'TM', 'WD') if d in T.lib(v).BASE_DATATYPES]
            dt = rnd.choice(special) if rnd.random() < 0.5 else rnd.choice(sorted(T.lib(v).BASE_DATATYPES))
            value = rnd.choice([lit.valid(dt, i), lit.valid(dt, i + 1), 'bad value', '20201301', '1e5'])
            if dt == 'TN' and value in ('bad value',):
                value = '555-1234'
            out.append({'t': 'factory', 'v': v, 'dt': dt, 'value': value, 'level': level})
        else:
            out.append({'t': 'load', 'v': v})
    return out


def global_snapshot():
    import hl7apy
    snap = [hl7apy.get_default_version(), hl7apy.get_default_validation_level(), sorted(hl7apy.get_default_encoding_chars().items()),
            sorted(hl7apy.get_default_encoding_chars('2.7').items())]
    for v in T.VERSIONS:
        snap.append((v, sorted((k, c.__module__ + '.' + c.__name__) for k, c in T.lib(v).BASE_DATATYPES.items())))
    return snap


def _norm(o):
    import json
    return json.loads(json.dumps(o, default=str))


# ---------------------------------------------------------------------------------------------

def check_preempt(case, acc=None):
    a, b = make_task(case['a']), make_task(case['b'])
    fresh = case.get('b_fresh')
    solo_a = _norm(sched.outcome(a))
    if _norm(sched.outcome(a)) != solo_a:
        if acc is not None:
            acc.excluded['task not reproducible alone'] += 1
        return []
    if not fresh:
        solo_b = _norm(sched.outcome(b))
    ra, rb, reached = sched.preempt(a, b, tuple(case['loc']), case.get('occ', 0))
    if fresh:
        # B meets the library 'cold' (whatever the library memoises about it is built while A is suspended); its
        # reference result is computed afterwards, alone, twice
        solo_b = _norm(sched.outcome(b))
    if _norm(sched.outcome(b)) != solo_b:
        if acc is not None:
            acc.excluded['task not reproducible alone'] += 1
        return []
    case['_reached'] = reached
    out = []
    if _norm(ra) != solo_a:
        out.append(('C19-preempted-task-result-differs:%s' % case['a']['t'], 'A=%r suspended at %r while B=%r ran\nalone:     %s\npreempted: %s' % (
            _brief(case['a']), case['loc'], _brief(case['b']), str(solo_a)[:300], str(_norm(ra))[:300])))
    if _norm(rb) != solo_b:
        out.append(('C19-interleaved-task-result-differs:%s' % case['b']['t'], 'B=%r run while A=%r was suspended at %r\nalone:       %s\ninterleaved: %s' % (
            _brief(case['b']), _brief(case['a']), case['loc'], str(solo_b)[:300], str(_norm(rb))[:300])))
    # later sequential calls must be right too
    if not out and (_norm(sched.outcome(a)) != solo_a or _norm(sched.outcome(b)) != solo_b):
        out.append(('C19-state-left-wrong-after-interleaving', 'A=%r B=%r at %r: a later sequential call differs from the solo result' % (
            _brief(case['a']), _brief(case['b']), case['loc'])))
    return out


def _brief(spec):
    return {k: (v if len(str(v)) < 60 else str(v)[:60] + '...') for k, v in spec.items()}


def check_interleave(case, acc=None):
    tasks = [make_task(s) for s in case['tasks']]
    solo = [_norm(sched.outcome(t)) for t in tasks]
    if [_norm(sched.outcome(t)) for t in tasks] != solo:
        return []
    res, switches = sched.interleave(tasks, case['slices'])
    case['_switches'] = switches
    out = []
    for i, (r, s0) in enumerate(zip(res, solo)):
        if _norm(r) != s0:
            out.append(('C19-interleaved-task-result-differs:%s' % case['tasks'][i]['t'], 'task %d %r under %d forced switches\nalone:       %s\ninterleaved: %s' % (
                i, _brief(case['tasks'][i]), switches, str(s0)[:300], str(_norm(r))[:300])))
            break
    return out


def check_stress(case, acc=None):
    tasks = [make_task(s) for s in case['tasks']]
    solo = [_norm(sched.outcome(t)) for t in tasks]
    old = sys.getswitchinterval()
    sys.setswitchinterval(1e-6)
    bad = []
    try:
        for rep in range(case['reps']):
            res = [None] * len(tasks)
            barrier = threading.Barrier(len(tasks))

            def work(i):
                try:
                    barrier.wait(10)
                except Exception:
                    pass
                res[i] = _norm(sched.outcome(tasks[i]))
            ths = [threading.Thread(target=work, args=(i,)) for i in range(len(tasks))]
            for t in ths:
                t.start()
            for t in ths:
                t.join(120)
            for i in range(len(tasks)):
                if res[i] != solo[i]:
                    bad.append(('C19-stress-task-result-differs:%s' % case['tasks'][i]['t'], 'task %r, repetition %d\nalone:  %s\nstress: %s' % (
                        _brief(case['tasks'][i]), rep, str(solo[i])[:300], str(res[i])[:300])))
                    return bad
    finally:
        sys.setswitchinterval(old)
    return bad


COLD_TASKS = ('parse_message', 'parse_segment', 'factory', 'build', 'base', 'validate', 'field')


def check_cold(case, acc=None):
    """first use of a version by several threads of a FRESH interpreter (hv/coldstart.py) against the same calls made alone"""
    import json
    import os
    import subprocess
    from hv import common
    env = dict(os.environ, PYTHONHASHSEED='0')
    root = os.path.dirname(os.path.dirname(os.path.dirname(os.path.abspath(__file__))))
    p = subprocess.run([sys.executable, '-m', 'hv.coldstart', common.REPO, json.dumps({k: case[k] for k in ('v', 'text', 'tasks')})],
                       cwd=root, env=env, stdout=subprocess.PIPE, stderr=subprocess.PIPE, timeout=600)
    if p.returncode != 0 or not p.stdout:
        raise common.HarnessError('cold-start worker failed: %s' % p.stderr.decode('utf8', 'replace')[-400:])
    res = json.loads(p.stdout.decode('utf8'))
    case['_cold'] = res['cold']
    if res['hung']:
        return [('C19-cold-start-hangs', 'version %s: threads %r did not finish within 120 s' % (case['v'], res['hung']))]
    out = []
    for (name, delay), got, solo in zip(case['tasks'], res['threads'], res['solo']):
        if got != solo:
            out.append(('C19-cold-start-result-differs:%s' % name, 'version %s, first use by %d threads, thread %s started at +%.3fs: got %r, alone %r' % (
                case['v'], len(case['tasks']), name, delay, got, solo)))
            break
    return out


def check(case, acc=None):
    if case['kind'] == 'cold':
        return check_cold(case, acc)
    before = global_snapshot()
    if case['kind'] == 'preempt':
        out = check_preempt(case, acc)
    elif case['kind'] == 'interleave':
        out = check_interleave(case, acc)
    else:
        out = check_stress(case, acc)
    if global_snapshot() != before:
        out.append(('C19-process-wide-state-changed', 'defaults or BASE_DATATYPES differ after the run'))
    return out


def replay(case, acc):
    return check(case)


# ---------------------------------------------------------------------------------------------

def run_shard(shard, acc):
    kind = shard['kind']
    tasks = corpus(shard['cseed'], shard.get('ntasks', 40))
    rnd = random.Random(shard['seed'])
    if kind == 'preempt':
        import collections
        light = [t for t in tasks if t['t'] in ('factory', 'encode', 'segment', 'load')]
        heavy_ = [t for t in tasks if t['t'] not in ('factory', 'encode', 'segment', 'load')]
        plan_ = [('light', rnd.choice(light)) for _ in range(shard['light_pairs'])] + \
                [('heavy', rnd.choice(heavy_)) for _ in range(shard['pairs'])]
        # one pair per shard: A writes with delimiters of its own (a group given as text), B relies on the process-wide defaults
        own = [t for t in tasks if t['t'] == 'grouptext' and t['ec']['FIELD'] != '|' and T.vkey(t['v']) < [2, 7]]
        dflt = [t for t in tasks if t['t'] in ('build', 'segment') and T.vkey(t['v']) < [2, 7]]
        forced = {}
        if own and dflt:
            a0 = rnd.choice(own)
            plan_.append(('heavy', a0))
            forced[id(a0)] = rnd.choice(dflt)
        # ... and one pair of tasks that both work on open-ended segments (whatever the library shares between such segments)
        zs = [t for t in tasks if t['t'] == 'zfields']
        if len(zs) >= 1:
            a1 = rnd.choice(zs)
            others_z = [t for t in tasks if t is not a1 and t['t'] in ('zfields', 'parse')]
            if others_z:
                plan_.append(('heavy', a1))
                forced[id(a1)] = rnd.choice(others_z)
        for weight, a in plan_:
            # B: another version family (the base datatype sets differ between <2.5, 2.5-2.6 and >=2.7), and one time in
            # three a task that builds many structures
            others = [t for t in tasks if t is not a and family(t.get('v')) != family(a.get('v'))] or tasks
            heavy = [t for t in others if t['t'] in ('standalone', 'parse')]
            b = rnd.choice(heavy) if (heavy and rnd.random() < 0.4) else rnd.choice(others)
            if id(a) in forced:
                b = forced[id(a)]
            sched.outcome(make_task(a))        # warm up: imports and first-use code are not part of the schedule space
            pts, _ = sched.trace_points(make_task(a), select_all)
            occ = collections.Counter(pts)
            tier1 = sorted(set(p for p in pts if select_tier1(p)))
            touch = sorted(set(p for p in pts if select_touch(p)) - set(tier1))
            other = sorted(set(pts) - set(touch) - set(tier1))
            acc.extra['distinct_tier1_locations'] += len(tier1)
            if weight == 'heavy' and shard.get('tier1_cap') and len(tier1) > shard['tier1_cap']:
                tier1 = sorted(rnd.sample(tier1, shard['tier1_cap']))
            acc.extra['distinct_touch_locations'] += len(touch)
            if len(touch) > shard['cap']:
                touch = sorted(rnd.sample(touch, shard['cap']))
            if len(other) > shard['other']:
                other = sorted(rnd.sample(other, shard['other']))
            # tier-1 locations once more with a B that the process has not run before: many stand-alone elements of a drawn version
            for loc in tier1:
                fv = rnd.choice([v for v in T.VERSIONS if family(v) != family(a.get('v'))] or T.VERSIONS)
                fsegs = [x for x in T.segments(fv) if x != 'MSH']
                fb = {'t': 'standalone', 'v': fv, 'segs': rnd.sample(fsegs, min(30, len(fsegs)))}
                case = {'kind': 'preempt', 'a': a, 'b': fb, 'loc': list(loc), 'occ': 0, 'b_fresh': True}
                for sig, detail in check(case, acc):
                    acc.violation(sig, case, detail)
                acc.case(h([a, fb, loc]), case.pop('_reached', False), sample=_sample(case), label='preempt:tier1-location:fresh-B')
            for label, locs in (('preempt:tier1-location', tier1), ('preempt:touch-location', touch), ('preempt:other-location', other)):
                for loc in locs:
                    occs = [0] + ([rnd.randrange(1, occ[loc])] if (occ[loc] > 1 and shard.get('later')) else [])
                    for o in occs:
                        case = {'kind': 'preempt', 'a': a, 'b': b, 'loc': list(loc), 'occ': o}
                        for sig, detail in check(case, acc):
                            acc.violation(sig, case, detail)
                        nt = case.pop('_reached', False) and (a.get('v') != b.get('v') or a.get('level') != b.get('level'))
                        acc.case(h([a, b, loc, o]), nt, sample=_sample(case), label=label)
    elif kind == 'interleave':
        @st.composite
        def cases(draw):
            n = draw(st.integers(2, 4))
            ts = [tasks[draw(st.integers(0, len(tasks) - 1))] for _ in range(n)]
            slices = draw(st.lists(st.tuples(st.integers(0, n - 1), st.integers(1, 25)), min_size=20, max_size=400))
            return {'kind': 'interleave', 'tasks': ts, 'slices': [list(x) for x in slices]}

        def run(case, acc):
            vs = check(case, acc)
            sw = case.pop('_switches', 0)
            vset = set((t.get('v'), t.get('level')) for t in case['tasks'])
            acc.case(h(case), sw >= 20 and len(vset) > 1, sample=_sample(case), label='interleave:%d-tasks' % len(case['tasks']))
            acc.extra['forced_switches'] += sw
            return vs
        hyp_collect(acc, cases(), run, shard['seed'], shard['n'], False)
    elif kind == 'cold':
        for i, v in enumerate(shard['versions']):
            r2 = random.Random(shard['seed'] * 100 + i)
            n = r2.choice([2, 3, 4, 6])
            ts = [[r2.choice(COLD_TASKS), 0.0]] + [[r2.choice(COLD_TASKS), round(r2.choice([0.0, 0.002, 0.01, 0.03, 0.06, 0.1, 0.15, 0.2]) * r2.uniform(0.7, 1.3), 4)]
                                                   for _ in range(n - 1)]
            case = {'kind': 'cold', 'v': v, 'text': _msg_text(v), 'tasks': ts}
            for sig, detail in check(case, acc):
                acc.violation(sig, case, detail)
            cold = case.pop('_cold', False)
            acc.case(h(case), cold and len(set(d for _, d in ts)) > 1, sample=case if i < 2 else None, label='cold-start:%d-threads' % n)
    else:
        for i in range(shard['n']):
            ts = rnd.sample(tasks, 16)
            case = {'kind': 'stress', 'tasks': ts, 'reps': shard['reps']}
            for sig, detail in check(case, acc):
                acc.violation(sig, case, detail)
            acc.case(h([ts, i]), True, label='stress:16-threads')


def _sample(case):
    c = dict(case)
    for k in ('a', 'b'):
        if k in c:
            c[k] = _brief(c[k])
    if 'tasks' in c:
        c['tasks'] = [_brief(t) for t in c['tasks']]
    if 'slices' in c:
        c['slices'] = c['slices'][:12] + ['...(%d slices)' % len(c['slices'])]
    return c


def plan(tier, seed):
    q = tier == 'quick'
    shards = []
    for i in range(9 if q else 40):
        shards.append({'kind': 'preempt', 'cseed': seed * 10 + i % 3, 'seed': seed * 1000 + i, 'pairs': 1 if q else 8, 'light_pairs': 5 if q else 12, 'cap': 30 if q else 300,
                       'other': 6 if q else 150, 'later': not q, 'tier1_cap': 60 if q else None})
    for i in range(4 if q else 16):
        shards.append({'kind': 'interleave', 'cseed': seed * 10 + i % 3, 'seed': seed * 1000 + 100 + i, 'n': 15 if q else 300})
    for i in range(2 if q else 8):
        shards.append({'kind': 'stress', 'cseed': seed * 10 + i % 3, 'seed': seed * 1000 + 200 + i, 'n': 3 if q else 20, 'reps': 3 if q else 10})
    for i in range(4 if q else 16):
        # fresh interpreters: first use of each version by several threads at staggered moments
        reps = 1 if q else 6
        vs = [v for k, v in enumerate(T.VERSIONS * reps) if k % (4 if q else 16) == i]
        shards.append({'kind': 'cold', 'cseed': seed * 10, 'seed': seed * 1000 + 300 + i, 'versions': vs})
    return shards
