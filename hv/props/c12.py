"""C12 - a rejected operation leaves its target unchanged."""
from hv import tables as T
from hv import forest as F
from hv.common import hyp_collect, h

ID = 'C12'
LEVEL = 'fault_enumeration'
EXHAUSTIVE = {}
RULE = ('fault enumeration over reachable states: the operation histories of C10 (forest of a TOLERANT and a STRICT message of one '
        'version, a message of another version, free elements) are replayed and, for every operation that raises (wrong child class or '
        'name, cardinality overflow under STRICT, validation-level or version mismatch via add / assignment to an empty or occupied slot '
        '/ indexed assignment, invalid or over-long value under STRICT via value=, attribute assignment or traversal, deleting an absent '
        'child or index, datatype change on a populated element, children=[...] with an inadmissible child, Message.value with another '
        'name / version / delimiters), the encoding and the recursive child listing of EVERY tree of the forest are compared with the '
        'snapshot taken just before the call, and no object passed to the call may name the target as its parent unless the target '
        'lists it. Non-trivial = a rejected operation on a target that has at least one child; distinct by (state hash, operation, '
        'exception type). Evidence lists the (operation x exception) matrix.')
ASSUMPTIONS = [
    'any exception counts as a rejection; calls that do not raise are not faults and are only counted',
    'snapshots compare to_er7(), to_er7(trailing_children=True) and the (class, name) listing of real children of every root',
]
TECHNIQUE = 'fault injection by construction: generated operation histories with calls built to be refused; snapshot-equality oracle around every raising call'
LEVEL_TEXT = ('fault enumeration: each rejected call met in sampled histories is a fault point; the (entry point x cause) matrix with '
              'counts is reported in the evidence counters')
LEVEL_NOTE = 'trusted: snapshot function (to_er7 + recursive listing); faults are those reachable by the operation alphabet of hv/forest.py'


def snap_all(f):
    roots, seen = [], set()
    for el in f.all:
        r = f.root_of(el)
        if id(r) not in seen:
            seen.add(id(r))
            roots.append(r)
    return [(r, F.snapshot(r)) for r in roots]


def _content(enc):
    """the encoding without separators and without segments that carry no value"""
    out = []
    for line in enc.split('\r'):
        name, _, body = line.partition('|')
        for ch in '|^~&':
            body = body.replace(ch, '')
        if body or name == 'MSH':
            out.append(name + body)
    return out


def _flat(listing, prefix=()):
    out = []
    for i in range(0, len(listing), 2):
        node = prefix + (listing[i],)
        out.append(node)
        out.extend(_flat(listing[i + 1], node))
    return out


def _only_additions(before, after):
    b, a = _flat(before), _flat(after)
    for x in b:
        if x in a:
            a.remove(x)
        else:
            return False
    return True


def check(case, acc=None):
    try:
        f = F.Forest(case['cell'])
    except Exception as e:
        return [('C12-setup-raises:%s' % type(e).__name__, str(e)[:200])]
    nt = 0
    found = []

    def stop(v):
        # a listed known finding does not end the history: the search goes on behind it
        found.append(v)
        return acc is None or not acc.is_known(v[0])
    for n, op in enumerate(case['ops']):
        before = snap_all(f)
        a = f.apply(op)
        if a.raised is None:
            continue
        kind = a.kind
        et = type(a.raised).__name__
        if acc is not None:
            acc.extra['fault:%s:%s' % (kind, et)] += 1
        tgt = a.target
        if tgt is not None and type(tgt).__name__ != 'SubComponent' and len(tgt.children.list) > 0:
            nt += 1
 
        for r, snap in before:
            now = F.snapshot(r)
            if now != snap:
                case['_nt'] = nt
                if kind == 'twrite' and _content(snap[0]) == _content(now[0]) and _only_additions(snap[1], now[1]):
                    if stop(('C12-rejected-traversal-write-materialised-empty-path', 'step %d %r raised %s\nbefore %r\nafter  %r' % (
                            n + 1, op, F._exc(a.raised), snap[0][:300], now[0][:300]))):
                        return found
                    break
                return found + [('C12-rejected-%s-changed-state:%s' % (kind, et), 'step %d %r raised %s\nbefore %r\nafter  %r' % (
                    n + 1, op, F._exc(a.raised), snap[0][:300], now[0][:300]) + ('' if snap[0] != now[0] else '\nlisting before %r\nlisting after  %r\nwith trailing children before %r\nafter %r' % (snap[1], now[1], snap[2][:300], now[2][:300])))]
        for o in a.objects:
            if tgt is not None and o.parent is tgt and not any(c is o for c in tgt.children.list):
                case['_nt'] = nt
                return found + [('C12-rejected-%s-left-child-half-attached:%s' % (kind, et), 'step %d %r raised %s: %r names %r as parent '
                         'but is not among its children' % (n + 1, op, F._exc(a.raised), o, tgt))]
    case['_nt'] = nt
    return found


def replay(case, acc):
    return check(case)


def _run(case, acc):
    vs = check(case, acc)
    nt = case.pop('_nt', 0)
    acc.case(h([case['cell'], case['ops']]), nt > 0, sample=case, label='history')
    acc.extra['rejected_ops_on_populated_targets'] += nt
    return vs


def run_shard(shard, acc):
    hyp_collect(acc, F.histories(shard['cells'], shard['max_ops']), _run, shard['seed'], shard['n'], shard['shrink'], rounds=8)


def plan(tier, seed):
    cells = F.forest_cells()
    n, k, mo = (16, 200, 14) if tier == 'quick' else (48, 1500, 30)
    return [{'cells': cells[i % len(cells)::max(1, len(cells) // 4)] or cells, 'seed': seed * 1000 + 500 + i, 'n': k, 'max_ops': mo,
             'shrink': tier != 'quick'} for i in range(n)]
