"""C11 - reading never writes; the first write materialises exactly the path read."""
from hypothesis import strategies as st

from hv import tables as T
from hv import refmodel as R
from hv import lit
from hv import strategies as S
from hv.common import hyp_collect, h
from hv.props.c14 import admissible_longnames, spell_ok

ID = 'C11'
LEVEL = 'exploration'
EXHAUSTIVE = {}
RULE = ('Hypothesis over (version, root, target path): roots are every real segment of every version, messages of sampled '
        'structures (target segments at a unique place of the structure, reached through their chain of groups) and fields; a target '
        'path of depth 1-4 (group* -> segment -> field -> component -> sub-component) is drawn from the tables; earlier writes at '
        'other paths give the element old content; then 1-3 rounds of read chains over prefixes of the path, each link spelled by name / '
        'lower case / long name / positional path and followed by len, iteration, repr, [0] under try, to_er7() and '
        'validate(return_errors=True); finally a write at the end of the chain (proxy.value=, attribute assignment or positional '
        'path). Oracle: reads leave (to_er7, recursive (class, name) listing, validation report) unchanged; after the write the encoding '
        'equals the reference text "old content + value at that position", the listing equals the listing of the element obtained by '
        'PARSING that reference text (exactly the chain elements, once each, at their positions), pre-existing elements keep their '
        'identity, a second identical write changes nothing, and no traversal index is left on the chain. Non-trivial = a chain of '
        'depth >= 2 through at least one element that did not exist; distinct by (version, root, path, spellings).')
ASSUMPTIONS = [
    'both validation levels; default delimiters; values are valid literals for the addressed leaf datatype',
    'message roots: only segments whose name occurs at one place of the structure (so that the parsed reference has one possible tree)',
]
TECHNIQUE = 'Hypothesis-generated read chains and writes against snapshot equality and a reference-encoder / parse-back oracle'
LEVEL_TEXT = 'exploration: sampled (version, root, path) triples over all segments of all versions and sampled message structures'
LEVEL_NOTE = 'trusted: reference encoder, the snapshot function, and the parser as the yardstick for "the elements that text needs"'


def _exc(e):
    return '%s: %s' % (type(e).__name__, str(e)[:160])


def _suffix(name):
    try:
        return int(str(name).rsplit('_', 1)[1])
    except Exception:
        return 10 ** 6


def listing(el):
    """recursive (class, name) listing of real children; creation order is kept where it is meaningful (messages and
    groups) and normalised to structure order below (segments, fields and components encode by position)"""
    out = []
    if type(el).__name__ == 'SubComponent':
        return out
    kids = list(el.children.list)
    if type(el).__name__ not in ('Message', 'Group'):
        kids.sort(key=lambda c: _suffix(c.name))
    for c in kids:
        out.append((type(c).__name__, c.name))
        out.append(listing(c))
    return out


def count(el):
    if type(el).__name__ == 'SubComponent':
        return 1
    return 1 + sum(count(c) for c in el.children.list)


def snapshot(el):
    try:
        rep = el.validate(return_errors=True)
        val = ([str(e) for e in rep.errors], [str(w) for w in rep.warnings])
    except Exception as e:
        val = 'validate raises ' + type(e).__name__
    return (el.to_er7() + '\n with trailing children: ' + el.to_er7(trailing_children=True), listing(el), val)


# ---------------------------------------------------------------------------------------------
# path description

def group_chain(ref, seg, acc=()):
    """names of the groups leading to segment `seg` (first occurrence, depth first)"""
    for name, r, card, kind in T.struct_children(ref):
        if kind == 'SEG' and name == seg:
            return list(acc)
        if kind == 'GRP':
            got = group_chain(r, seg, acc + (name,))
            if got is not None:
                return got
    return None


def first_chain_withdrawn(v, ref, depth=0):
    """a plain value assigned to this field/component lands in its first child: is that one withdrawn (max 0)?"""
    ch = T.ref_children(v, ref)
    if not ch or depth > 2:
        return False
    return ch[0][3][1] == 0 or first_chain_withdrawn(v, ch[0][2], depth + 1)


def seg_rows(v, s):
    """table rows of a segment; a Z-segment has no table: its positions are plain text fields"""
    if s.startswith('Z'):
        return tuple(('%s_%d' % (s, i), i, ('leaf', None, 'ST', None, None, -1), (0, -1)) for i in range(1, 10))
    rows = T.seg_fields(v, s)
    if rows and rows[-1][2][2] == 'varies' and rows[-1][1]:
        # open-ended segment (last field of varying type): positions beyond the table are addressable too
        last = rows[-1][1]
        rows = rows + tuple(('%s_%d' % (s, last + k), last + k, ('leaf', None, 'varies', None, None, -1), (0, -1)) for k in (1, 2, 4))
    return rows


def describe(case):
    """-> dict with the names along the path and the model position"""
    v, s = case['v'], case['s']
    rows = seg_rows(v, s)
    fname, i, fref, card = rows[case['fi'] % len(rows)]
    d = {'fname': fname, 'i': i, 'fref': fref, 'cname': None, 'j': 1, 'sname': None, 'k': 1, 'leaf_dt': lit.first_leaf_dt(T, v, fref),
         'withdrawn': card[1] == 0}
    ch = T.ref_children(v, fref)
    depth = case['depth']
    if ch and depth >= 2:
        cname, j, cref, ccard = ch[case['ci'] % len(ch)]
        d.update(cname=cname, j=j, cref=cref, leaf_dt=lit.first_leaf_dt(T, v, cref), withdrawn=d['withdrawn'] or ccard[1] == 0)
        sub = T.ref_children(v, cref)
        if sub and depth >= 3:
            sname, k, sref, scard = sub[case['si'] % len(sub)]
            d.update(sname=sname, k=k, leaf_dt=lit.first_leaf_dt(T, v, sref), withdrawn=d['withdrawn'] or scard[1] == 0)
    if not ch and T.ref_dt(fref) == 'varies' and depth >= 2 and i is not None:
        # a field of varying type has no table of components: they are addressed by position (VARIES_<j>, <field>_<j>)
        j = case['ci'] % 4 + 1
        d.update(cname='VARIES_%d' % j, j=j, cref=('leaf', None, None, None, None, -1), leaf_dt='ST', varies=True)
    last_ref = d.get('cref', fref) if d['cname'] else fref
    if not d['sname'] and first_chain_withdrawn(v, last_ref):
        d['withdrawn'] = True
    return d


def model_text(s, fields):
    """fields: {i: {j: {k: leaf}}}"""
    enc = {}
    for i, comps in fields.items():
        nj = max(comps)
        cl = []
        for j in range(1, nj + 1):
            subs = comps.get(j, {})
            if subs:
                nk = max(subs)
                cl.append('&'.join(subs.get(k, '') for k in range(1, nk + 1)))
            else:
                cl.append('')
        enc[i] = '^'.join(cl)
    return R.enc_segment(s, enc, R.DEFAULT_EC)


# ---------------------------------------------------------------------------------------------

def check(case, acc=None):
    from hl7apy import core
    from hl7apy import parser as P
    from hl7apy.exceptions import HL7apyException
    v, s, level = case['v'], case['s'], case['level']
    d = describe(case)
    out = []
    created_any = False
    if level == 1 and d['withdrawn']:
        if acc is not None:
            acc.excluded['STRICT write to a withdrawn (0,0) position is rejected by design'] += 1
        return []
    try:
        # ---- root
        if case['root'] == 'message':
            m = core.Message(case['m'], version=v, validation_level=level)
            m.msh.msh_7 = '20200101'
            m.msh.msh_9 = S.msh9_text(v, case['m'], R.DEFAULT_EC)
            msh_line = m.msh.to_er7()
            groups = [] if s.startswith('Z') else group_chain(T.message_ref(v, case['m']), s)
            root = m
        else:
            seg = core.Segment(s, version=v, validation_level=level)
            root, groups, msh_line = seg, [], None
        fields = {}

        def seg_proxy_or_el(spell=0):
            if case['root'] == 'message':
                cur = root
                for g in groups:
                    cur = getattr(cur, g.lower() if spell % 2 else g)
                return getattr(cur, s.lower() if spell % 2 else s)
            return root

        # ---- earlier writes at other paths (old content)
        rows = seg_rows(v, s)
        for (pfi, pval) in case['pre']:
            pname, pi, pref, _ = rows[pfi % len(rows)]
            if pi == d['i'] or (s == 'MSH'):
                continue
            pv = lit.valid(lit.first_leaf_dt(T, v, pref), pval)
            if level == 1:
                # under STRICT an earlier write may be refused by design (withdrawn position): then it is no old content
                probe = core.Segment(s, version=v, validation_level=level)
                try:
                    setattr(probe, pname, pv)
                except Exception:
                    continue
            setattr(seg_proxy_or_el(), pname, pv)
            fields[pi] = {1: {1: pv}}
        seg_exists_before = case['root'] != 'message' or bool(fields)
        ids_before = {}
        if case['root'] == 'message' and fields:
            ids_before['segment'] = id(seg_proxy_or_el()[0])

        def expected():
            line = model_text(s, fields)
            if case['root'] == 'message':
                return msh_line + ('\r' + line if (fields or materialised) else '')
            return line
        materialised = False
        # ---- reads
        snap = snapshot(root)
        from hl7apy.core import Segment, Field, Component
        flongs = admissible_longnames(rows, Segment)
        for rnd, (spell, extras, upto) in enumerate(case['reads']):
            cur = seg_proxy_or_el(spell)
            chain = [cur]
            depth = min(upto, case['depth'])
            if depth >= 1:
                fsp = d['fname']
                if spell % 3 == 1:
                    fsp = fsp.lower()
                elif spell % 3 == 2 and flongs.get(d['fname']) and spell_ok(Segment, flongs[d['fname']].lower()):
                    fsp = flongs[d['fname']].lower()
                cur = getattr(cur, fsp)
                chain.append(cur)
            if depth >= 2 and d['cname']:
                csp = d['cname'] if spell % 2 == 0 else '%s_%d' % (d['fname'].lower(), d['j'])
                cur = getattr(cur, csp)
                chain.append(cur)
            if depth >= 3 and d['sname']:
                if spell % 2 == 0:
                    cur = getattr(cur, d['sname'].lower())
                else:
                    cur = getattr(chain[-2], '%s_%d_%d' % (d['fname'], d['j'], d['k']))
                chain.append(cur)
            for link in chain:
                if extras & 1:
                    len(link) if isinstance(link, core.ElementProxy) else None
                    list(link) if isinstance(link, core.ElementProxy) else None
                if extras & 2:
                    repr(link)
                if extras & 4 and isinstance(link, core.ElementProxy):
                    try:
                        link[0]
                    except IndexError:
                        pass
                if extras & 8:
                    link.to_er7()
                if extras & 16:
                    try:
                        link.validate(return_errors=True)
                    except HL7apyException:
                        pass        # validating a not-yet-existing child may be refused; it must still not write
            now = snapshot(root)
            if now != snap:
                what = 'encoding' if now[0] != snap[0] else ('children' if now[1] != snap[1] else 'validation report')
                return [('C11-read-changed-%s' % what, 'read round %d %r of path %s: before %r after %r' % (
                    rnd + 1, (spell, extras, upto), _path(case, d), snap[0 if what == 'encoding' else 1 if what == 'children' else 2],
                    now[0 if what == 'encoding' else 1 if what == 'children' else 2]))]
        # ---- optionally the element at the head of the chain is now created by an explicit call (the reads above left
        #      pending traversal elements behind): the write below must go INTO it, not create a second one
        pre = case.get('precreate', 0)
        if pre == 1 and case['root'] == 'message' and not fields:
            parent = root
            for g in groups:
                parent = parent.add_group(g)
            parent.add_segment(s)
            materialised = True
            if root.to_er7() != expected():
                return [('C11-explicit-creation-encoding', 'add_segment(%s): %r' % (s, root.to_er7()))]
        elif pre == 2 and d['cname'] and case['depth'] >= 2 and d['i'] not in fields:
            target_seg = seg_proxy_or_el()
            (target_seg[0] if isinstance(target_seg, core.ElementProxy) and len(target_seg) else target_seg).add_field(d['fname']) \
                if (case['root'] != 'message' or len(target_seg)) else None
        # ---- the write
        val = lit.valid(d['leaf_dt'], case['val'])
        before_count = count(root)
        cur = seg_proxy_or_el()
        fproxy = getattr(cur, d['fname'])
        field_existed = len(fproxy) > 0
        how = case['how']
        wval = val
        # (the element written to is itself of a base datatype: a field without components, a component without sub-components)
        if d['sname']:
            leaf_here = True
        elif d['cname']:
            leaf_here = not T.ref_children(v, d['cref']) and T.is_base(v, T.ref_dt(d['cref']) or '')
        else:
            leaf_here = not T.ref_children(v, d['fref']) and T.is_base(v, T.ref_dt(d['fref']) or '')
        if case.get('obj') and leaf_here and not d.get('varies') and d['leaf_dt'] in T.lib(v).BASE_DATATYPES:
            # the value handed over as a base datatype object instead of text
            from hl7apy.factories import datatype_factory
            wval = datatype_factory(d['leaf_dt'], val, v, level)
        if case['depth'] == 1 or not d['cname']:
            if how % 2 == 0:
                setattr(cur, d['fname'], wval)
            else:
                fproxy.value = wval
            fields[d['i']] = {1: {1: val}}
        elif case['depth'] == 2 or not d['sname']:
            if how % 3 == 0:
                setattr(fproxy, d['cname'], wval)
            elif how % 3 == 1:
                getattr(fproxy, d['cname']).value = wval
            else:
                setattr(fproxy, '%s_%d' % (d['fname'], d['j']), val)
            fields.setdefault(d['i'], {})[d['j']] = {1: val}
        else:
            if how % 3 == 0:
                setattr(getattr(fproxy, d['cname']), d['sname'], wval)
            elif how % 3 == 1:
                getattr(getattr(fproxy, d['cname']), d['sname']).value = wval
            else:
                setattr(fproxy, '%s_%d_%d' % (d['fname'], d['j'], d['k']), val)
            fields.setdefault(d['i'], {}).setdefault(d['j'], {})[d['k']] = val
        materialised = True
        created_any = not field_existed
        exp = expected()
        got = root.to_er7()
        if got != exp:
            out.append(('C11-write-encoding-differs', 'path %s how=%d: encoded %r, expected %r' % (_path(case, d), how, got, exp)))
        else:
            # the elements that text needs = what the parser builds from it
            if case['root'] == 'message':
                ref_el = P.parse_message(exp, validation_level=level, find_groups=True)
            else:
                ref_el = P.parse_segment(exp, version=v, validation_level=level)
            if listing(root) != listing(ref_el) and not d.get('varies'):    # (the parser also builds the empty components before a varies one)
                out.append(('C11-write-created-other-elements', 'path %s how=%d: listing %r, parsing %r gives %r' % (
                    _path(case, d), how, listing(root), exp, listing(ref_el))))
        if 'segment' in ids_before and id(seg_proxy_or_el()[0]) != ids_before['segment']:
            out.append(('C11-existing-element-replaced', 'the segment object changed identity'))
        # traversal indexes along the chain must be empty
        def trav(el, depth=0):
            if type(el).__name__ == 'SubComponent' or depth > 6:
                return []
            bad = [k for k, lst in el.children.traversal_indexes.items() if lst]
            for c in el.children.list:
                bad += trav(c, depth + 1)
            return bad
        left = trav(root)
        if left and not out and not case.get('precreate'):
            out.append(('C11-traversal-children-left-after-write', 'path %s: traversal indexes still hold %r' % (_path(case, d), left)))
        # second identical write
        l1, c1 = listing(root), count(root)
        cur = seg_proxy_or_el()
        fproxy = getattr(cur, d['fname'])
        if case['depth'] == 1 or not d['cname']:
            setattr(cur, d['fname'], val)
        elif case['depth'] == 2 or not d['sname']:
            setattr(fproxy, d['cname'], val)
        else:
            setattr(getattr(fproxy, d['cname']), d['sname'], val)
        if not out and (listing(root) != l1 or count(root) != c1 or root.to_er7() != exp):
            out.append(('C11-second-identical-write-changed-something', 'path %s: %r -> %r' % (_path(case, d), exp, root.to_er7())))
    except Exception as e:
        import traceback
        tb = traceback.extract_tb(e.__traceback__)
        where = [f for f in tb if '/hl7apy/' in f.filename]
        return [('C11-raises:%s:%s' % (type(e).__name__, where[-1].name if where else 'harness'), 'path %s: %s' % (_path(case, d), _exc(e)))]
    case['_nt'] = case['depth'] >= 2 and created_any
    return out


def _path(case, d):
    return '/'.join([case.get('m', '')] * (case['root'] == 'message') + [case['s'], d['fname']] + [x for x in (d['cname'], d['sname']) if x])


def replay(case, acc):
    return check(case)


# ---------------------------------------------------------------------------------------------

def unique_segments(v, m):
    ref = T.message_ref(v, m)
    places = T.name_places(ref)
    groups = T.group_names(ref)
    out = []
    for n, c in sorted(places.items()):
        if c == 1 and n != 'MSH' and n not in T.PSEUDO_SEGMENTS and n in T.lib(v).SEGMENTS and not T.segment_defect(v, n):
            ch = group_chain(ref, n)
            if ch is not None and all(groups[g] == 1 for g in ch) and not _dup_on_chain(ref, ch + [n]):
                out.append(n)
    return out


def _dup_on_chain(ref, chain):
    for name in chain:
        kids = T.struct_children(ref)
        if sum(1 for k in kids if k[0] == name) != 1:
            return True
        for k in kids:
            if k[0] == name:
                ref = k[1]
    return False


@st.composite
def cases(draw, versions, mcells):
    root = draw(st.sampled_from(['segment', 'segment', 'message']))
    if root == 'message':
        v, m = draw(st.sampled_from(mcells))
        segs = unique_segments(v, m)
        if not segs:
            root = 'segment'
    zseg = draw(st.sampled_from([None] * 7 + ['ZXX', 'ZIN']))      # a Z-segment: accepted by every message, no table of its own
    if root == 'segment':
        v = draw(st.sampled_from(versions))
        s = zseg or draw(st.sampled_from([x for x in T.segments(v) if x != 'MSH']))
        m = None
    else:
        s = zseg or draw(st.sampled_from(segs))
    case = {'root': root, 'v': v, 's': s, 'level': draw(st.sampled_from([2, 2, 1])), 'fi': draw(st.integers(0, 60)),
            'ci': draw(st.integers(0, 30)), 'si': draw(st.integers(0, 12)), 'depth': draw(st.sampled_from([1, 2, 3, 3])),
            'pre': draw(st.lists(st.tuples(st.integers(0, 60), st.integers(0, 3)), max_size=2)),
            'reads': draw(st.lists(st.tuples(st.integers(0, 5), st.integers(0, 31), st.integers(0, 3)), min_size=1, max_size=3)),
            'val': draw(st.integers(0, 3)), 'how': draw(st.integers(0, 5)), 'precreate': draw(st.sampled_from([0, 0, 1, 2])),
            'obj': draw(st.integers(0, 3)) == 0}
    if m:
        case['m'] = m
    return case


def _run(case, acc):
    vs = check(case, acc)
    acc.case(h(case), case.pop('_nt', False), sample=case, label='%s:level=%d:depth=%d' % (case['root'], case['level'], case['depth']))
    return vs


def run_shard(shard, acc):
    hyp_collect(acc, cases(shard['versions'], [tuple(c) for c in shard['mcells']]), _run, shard['seed'], shard['n'], shard['shrink'])


def plan(tier, seed):
    from hv.props import c01
    mcells = c01.message_cells()
    n, k = (16, 250) if tier == 'quick' else (48, 2500)
    return [{'versions': T.VERSIONS, 'mcells': mcells[i::n], 'seed': seed * 1000 + i, 'n': k, 'shrink': tier != 'quick'}
            for i in range(n)]
