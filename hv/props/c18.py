"""C18 - a message profile replaces the standard structure wherever it speaks."""
import os

from hypothesis import strategies as st

from hv import tables as T
from hv import refmodel as R
from hv import strategies as S
from hv import msggen as G
from hv import lit
from hv import common
from hv.common import hyp_collect, h
from hv.props import c04

ID = 'C18'
LEVEL = 'exploration'
EXHAUSTIVE = {}
RULE = ('profiles are synthesised by the harness from standard message structures (same nested reference shape, fully inlined) by one '
        'constraint edit at a drawn site and depth - make an optional child required, cap an unbounded child at 1 or at 2, forbid (remove) a child, '
        'swap a datatype (complex -> ST, base -> another base, complex -> another complex) on a segment / group, a field or a component - or '
        'by no edit (restating). A standard-conforming instance that passes through the edit site (modes incl. repeated groups) is built '
        'three ways: Message(name, reference=profile) + add_group/add_segment/value, parse_message(text, message_profile=profile), and '
        'Message(reference=profile).value = text - and, for cardinality edits, a fourth way: built WITHOUT the profile and judged by '
        'Validator.validate(message, reference=profile structure); TOLERANT and STRICT. Oracle: restating profile => encoding and validation report '
        'identical to no profile; otherwise validate() judges against the profile: an error naming the edited child exactly when the '
        'instance violates the edit (required and absent, capped and repeated, forbidden and present, datatype with incompatible content), '
        'no error at all otherwise, while the standard verdict stays "valid"; STRICT construction refuses forbidden / surplus children; in '
        'EVERY instance of the edited child\'s parent (every group repetition) a child created afterwards by add_* or traversal carries '
        'the profile\'s datatype and obeys its cardinality. Plus: a profile lacking the structure raises MessageProfileNotFound '
        '(constructor and parser), the legacy file raises LegacyMessageProfile, and the shipped ITI-21 profile gives its own datatypes. '
        'Non-trivial = an actual edit at field or component depth, or inside a group; distinct by (version, structure, edit, route, instance hash).')
ASSUMPTIONS = [
    'profile precedence is promised for traversal, the add_* helpers, parsing and validate(), not for add() of a stand-alone element (tutorial)',
    'instances conform to the standard tables as read by the harness (shared with C04/C08)',
]
TECHNIQUE = 'Hypothesis generation of (structure, profile edit, instance, construction route); metamorphic oracle (restating profile = no profile) and edit-specific verdict / attribute oracle'
LEVEL_TEXT = 'exploration: sampled structures x edits x instances x three construction routes x two levels'
LEVEL_NOTE = 'trusted: the profile editor (40 lines) and the expectation table per edit kind in this module'

TOL, STRICT = 2, 1


def _exc(e):
    return '%s: %s' % (type(e).__name__, str(e)[:200])


# ---------------------------------------------------------------------------------------------
# profile editor (persistent update of the nested reference along a path of child indices)

def edit_ref(ref, idx_path, fn):
    """new reference equal to ref except that the child row at idx_path is fn(row) (dropped when None)"""
    kids = list(ref[1])
    i = idx_path[0]
    row = kids[i]
    if len(idx_path) == 1:
        new = fn(row)
        if new is None:
            del kids[i]
        else:
            kids[i] = new
    else:
        kids[i] = (row[0], edit_ref(row[1], idx_path[1:], fn), row[2], row[3])
    return tuple([ref[0], tuple(kids)] + list(ref[2:]))


def copy_ref(ref):
    """structural copy (restating profile): nothing shared with the library's tables"""
    if ref is None:
        return None
    if ref[0] in ('sequence', 'choice') and len(ref) > 1 and ref[1]:
        return tuple([ref[0], tuple((r[0], copy_ref(r[1]), tuple(r[2]), r[3]) for r in ref[1])] + list(ref[2:]))
    return tuple(ref)


def leaf_form(ref):
    """the same structure with every field of complex datatype written as ('leaf', None, datatype, long name, table, length)"""
    def field(f):
        return ('leaf', None) + tuple(f[2:]) if (f is not None and f[0] == 'sequence' and len(f) >= 6) else f

    def node(r, kind):
        if r is None or not r[1]:
            return r
        if kind == 'SEG':
            return (r[0], tuple((c[0], field(c[1]), c[2], c[3]) for c in r[1])) + tuple(r[2:])
        return (r[0], tuple((c[0], node(c[1], c[3]), c[2], c[3]) for c in r[1])) + tuple(r[2:])
    return node(ref, 'GRP')


def dt_ref(v, old, new):
    """reference row content for datatype `new`, keeping long name / table / length of `old`"""
    tail = list(old[3:]) if len(old) > 3 else [None, None, -1]
    if T.is_base(v, new):
        return tuple(['leaf', None, new] + tail)
    return tuple(['sequence', T.lib(v).DATATYPES_STRUCTS[new], new] + tail)


def apply_edit(v, std, site, kind, newdt=None):
    def fn(row):
        name, ref, (mn, mx), cls = row[0], row[1], tuple(row[2]), row[3]
        if kind == 'require':
            return (name, ref, (1, mx), cls)
        if kind == 'max1':
            return (name, ref, (mn, 1), cls)
        if kind == 'max2':
            return (name, ref, (mn, 2), cls)
        if kind == 'forbid':
            return None
        if kind == 'datatype':
            return (name, dt_ref(v, ref, newdt), (mn, mx), cls)
        raise ValueError(kind)
    return edit_ref(std, site['idx'], fn)


# ---------------------------------------------------------------------------------------------
# sites: a path through the instance

def find_sites(v, m, tree, lines):
    """candidate sites: one per (segment node, optional field, optional component) with what the instance holds there"""
    std = T.message_ref(v, m)
    out = []
    it = iter(lines)

    def rec(nodes, ref, idx_prefix, groups):
        counts = {}
        for n in nodes:
            counts[n['n']] = counts.get(n['n'], 0) + 1
        for n in nodes:
            row = ref[1][n['i']]
            if n['k'] == 'G':
                rec(n['c'], row[1], idx_prefix + [n['i']], groups + [n['n']])
            else:
                line = next(it)
                if n['n'] == 'MSH':
                    continue
                name, fields = R.split_segment(line, R.DEFAULT_EC)
                out.append({'level': 'segment', 'idx': idx_prefix + [n['i']], 'groups': groups, 'seg': n['n'], 'name': n['n'],
                            'count': counts[n['n']], 'card': tuple(row[2]), 'row_ref': row[1]})
                sref = row[1]
                for fi, frow in enumerate(sref[1]):
                    fname = frow[0]
                    i = T.idx_of(fname)
                    reps = fields.get(i, [])
                    out.append({'level': 'field', 'idx': idx_prefix + [n['i'], fi], 'groups': groups, 'seg': n['n'], 'name': fname, 'i': i,
                                'count': len(reps), 'card': tuple(frow[2]), 'row_ref': frow[1],
                                'multi': any(len(r) > 1 for r in reps)})
                    ch = frow[1][1] if frow[1][0] == 'sequence' and frow[1][1] else None
                    if ch and reps:
                        for ci, crow in enumerate(ch):
                            j = T.idx_of(crow[0])
                            present = sum(1 for r in reps if len(r) >= j and any(x != '' for x in r[j - 1]))
                            out.append({'level': 'component', 'idx': idx_prefix + [n['i'], fi, ci], 'groups': groups, 'seg': n['n'],
                                        'field': fname, 'i': i, 'name': crow[0], 'j': j, 'count': present, 'nreps': len(reps),
                                        'card': tuple(crow[2]), 'row_ref': crow[1],
                                        'multi': any(len(r) >= j and len(r[j - 1]) > 1 for r in reps)})
    rec(tree, std, [], [])
    return out


def aggregate(sites):
    """one site per structural path; what the instance holds is kept per occurrence of the parent"""
    by = {}
    for s_ in sites:
        key = (tuple(s_['idx']), s_['level'])
        if key not in by:
            by[key] = dict(s_, counts=[s_['count']], multis=[s_.get('multi', False)], nrepss=[s_.get('nreps', 1)])
        else:
            by[key]['counts'].append(s_['count'])
            by[key]['multis'].append(s_.get('multi', False))
            by[key]['nrepss'].append(s_.get('nreps', 1))
    out = []
    for k in sorted(by):
        s_ = by[k]
        s_['count'] = max(s_['counts'])
        out.append(s_)
    return out


def applicable(site, kind):
    mn, mx = site['card']
    if kind == 'require':
        return mn == 0 and mx != 0
    if kind == 'max1':
        return mx == -1 or mx > 1
    if kind == 'max2':
        return mx == -1 or mx > 2
    if kind == 'forbid':
        return site['level'] != 'component'
    if kind == 'datatype':
        return site['level'] in ('field', 'component') and site['row_ref'][2] not in (None, 'varies') and mx != 0
    return False


def new_datatype(v, site, pick):
    old = site['row_ref'][2]
    if not T.is_base(v, old):
        opts = ['ST'] + ([d for d in ('CWE', 'CE', 'HD', 'CX') if d in T.lib(v).DATATYPES_STRUCTS and d != old] if site['level'] == 'field' else [])
    else:
        opts = [d for d in ('ST', 'NM', 'ID', 'IS', 'TX') if d != old and d in T.lib(v).BASE_DATATYPES]
    return opts[pick % len(opts)]


# ---------------------------------------------------------------------------------------------

def build(v, m, tree, lines, route, level, profile):
    from hl7apy import parser as P
    from hl7apy.core import Message
    text = '\r'.join(lines)
    if route == 'parse':
        return P.parse_message(text, validation_level=level, find_groups=True, message_profile=profile)
    if route == 'value':
        ec = dict(R.DEFAULT_EC)          # the text spells a four-character MSH-2, whatever the version
        msg = Message(m, version=v, validation_level=level, reference=profile, encoding_chars=ec) if profile is not None else \
            Message(m, version=v, validation_level=level, encoding_chars=ec)
        msg.value = text
        return msg
    return c04.build_api(v, m, tree, lines, level, profile)


def _open_ended(v, seg, without=None):
    """the segment takes fields beyond its table (last field of varying type) - also once the row `without` is removed"""
    rows = [r for r in T.seg_fields(v, seg) if r[0] != without]
    return bool(rows) and rows[-1][2][2] == 'varies'


def report(msg, reference=None):
    if reference is not None:
        # the validator's own entry point: an element judged against a reference given by the caller
        from hl7apy.validation import Validator
        r = Validator.validate(msg, reference=reference, return_errors=True)
    else:
        r = msg.validate(return_errors=True)
    return [str(e) for e in r.errors], [str(w) for w in r.warnings]


def parents_of(msg, site):
    """every element instance that is the parent of the edited child (all group repetitions)"""
    cur = [msg]
    for g in site['groups']:
        cur = [c for p in cur for c in p.children if c.name == g]
    if site['level'] == 'segment':
        return cur
    cur = [c for p in cur for c in p.children if c.name == site['seg']]
    if site['level'] == 'field':
        return cur
    return [c for p in cur for c in p.children if c.name == site['field']]


def probe_created_children(v, msg, site, kind, newdt, level):
    """children created AFTER construction, in every instance of the parent, follow the profile"""
    from hl7apy.exceptions import ChildNotValid, MaxChildLimitReached, HL7apyException
    out = []
    name = site['name']
    for k, parent in enumerate(parents_of(msg, site)):
        cls = type(parent).__name__
        where = '%s #%d of %d' % (parent.name, k + 1, len(parents_of(msg, site)))
        adder = {'Message': 'add_segment', 'Group': 'add_segment', 'Segment': 'add_field', 'Field': 'add_component'}[cls]
        if site['level'] == 'segment' and name in T.lib(v).GROUPS:
            adder = 'add_group'
        try:
            if kind == 'datatype':
                try:
                    child = getattr(parent, adder)(name)
                except MaxChildLimitReached:
                    continue           # STRICT and the slot is taken: nothing can be created here
                if child.datatype != newdt:
                    out.append(('C18-created-child-ignores-profile-datatype:%s' % site['level'], '%s.%s created by %s in %s has datatype %r, profile says %r' % (
                        parent.name, name, adder, where, child.datatype, newdt)))
                parent.children.remove(child)
                if any(c.name == name for c in parent.children):
                    continue           # traversal would reach the existing child, whose content may have changed its datatype
                got = getattr(parent, name.lower())
                dt = got.datatype          # a lazily created child
                if dt != newdt:
                    out.append(('C18-traversal-child-ignores-profile-datatype:%s' % site['level'], '%s.%s reached by traversal in %s has datatype %r, profile says %r' % (
                        parent.name, name, where, dt, newdt)))
            elif kind == 'forbid' and level == STRICT and not (site['level'] == 'field' and _open_ended(v, site['seg'])):
                try:
                    child = getattr(parent, adder)(name)
                    out.append(('C18-strict-creates-forbidden-child:%s' % site['level'], '%s(%r) accepted in %s although the profile does not list it' % (adder, name, where)))
                    parent.children.remove(child)
                except (ChildNotValid, HL7apyException):
                    pass
            elif kind in ('max1', 'max2') and level == STRICT:
                cap = 1 if kind == 'max1' else 2
                have = len([c for c in parent.children if c.name == name])
                made = []
                try:
                    for _ in range(cap + 1 - min(have, cap)):
                        made.append(getattr(parent, adder)(name))
                    out.append(('C18-strict-exceeds-profile-cardinality:%s' % site['level'], '%s in %s: %d existing + %d added, profile max is %d' % (
                        name, where, have, len(made), cap)))
                except (MaxChildLimitReached, HL7apyException):
                    pass
                for c in made:
                    if any(x is c for x in parent.children):
                        parent.children.remove(c)
        except Exception as e:
            out.append(('C18-probe-raises:%s:%s' % (kind, type(e).__name__), '%s in %s: %s' % (name, where, _exc(e))))
        if out:
            break
    return out


def desc0(v, m, kind, site):
    return '%s %s: %s at %s/%s (instance holds %d), instance built without the profile' % (
        v, m, kind, '/'.join(site['groups'] + [site['seg']] + ([site['field']] if site['level'] == 'component' else [])), site['name'], site['count'])


def check_edit(case, acc=None):
    from hl7apy.exceptions import HL7apyException
    v, m, tree, lines = case['v'], case['m'], case['tree'], case['lines']
    std = T.message_ref(v, m)
    route, level, kind = case['route'], case['level'], case['kind']
    out = []
    # 'refarg': the instance is built WITHOUT the profile (its elements carry the standard structure) and judged by
    # Validator.validate(message, reference=profile structure); cardinality edits only (the elements keep standard datatypes)
    refarg = route == 'refarg' and kind in ('require', 'max1', 'max2', 'forbid')
    if route in ('refarg', 'parse-flat'):
        route = 'api'
    if kind == 'restate':
        prof = {m: copy_ref(std)}
        if case['pick'] % 3 == 0:
            # the other way of restating: fields of complex datatype described as leaves, their components not listed (what
            # the profile converter writes when the profile does not spell the components out)
            prof = {m: leaf_form(std)}
            route = route + ':leaf-form'
        try:
            a = build(v, m, tree, lines, route.split(':')[0], level, None)
            b = build(v, m, tree, lines, route.split(':')[0], level, prof)
            if a.to_er7() != b.to_er7():
                out.append(('C18-restating-profile-changes-encoding:%s' % route, '%s %s\nno profile %r\nprofile    %r' % (v, m, a.to_er7()[:300], b.to_er7()[:300])))
            ra, rb = report(a), report(b)
            if route.endswith(':leaf-form'):
                # (a leaf row carries a length and a table, which the validator turns into warnings: only errors are compared)
                ra, rb = (ra[0], []), (rb[0], [])
            if ra != rb:
                out.append(('C18-restating-profile-changes-validation:%s' % route, '%s %s\nno profile %r\nprofile    %r' % (v, m, ra[0][:3], rb[0][:3])))
        except Exception as e:
            out.append(('C18-restating-raises:%s:%s' % (route, type(e).__name__), '%s %s: %s' % (v, m, _exc(e))))
        return out
    sites = [s for s in aggregate(find_sites(v, m, tree, lines)) if applicable(s, kind)]
    # prefer sites where the instance makes the edit bite
    hot = [s for s in sites if (kind == 'require' and min(s['counts']) == 0) or (kind == 'max1' and s['count'] > 1) or (kind == 'max2' and s['count'] > 1)
           or (kind == 'forbid' and s['count'] > 0) or (kind == 'datatype' and s['count'] > 0)]
    pool = hot if (hot and case['pick'] % 4) else sites
    if not pool:
        case['_skipped'] = True
        return []
    site = pool[case['pick'] % len(pool)]
    newdt = new_datatype(v, site, case['pick'] // 7) if kind == 'datatype' else None
    prof = {m: apply_edit(v, std, site, kind, newdt)}
    name = site['name']
    counts = site['counts']
    violated = (kind == 'require' and min(counts) == 0) or (kind == 'max1' and max(counts) > 1) or (kind == 'max2' and max(counts) > 2) or (kind == 'forbid' and max(counts) > 0)
    if kind == 'require' and site['level'] == 'component':
        violated = any(c < n for c, n in zip(counts, site['nrepss']))
    if kind == 'datatype':
        violated = any(site['multis']) and T.is_base(v, newdt)
    if kind == 'forbid' and site['level'] == 'field' and not _open_ended(v, site['seg']) and _open_ended(v, site['seg'], name):
        # forbidding the last field uncovers a field of varying type as the new last one: the profile's segment is then
        # open-ended and the "forbidden" position is a legal extra field - the edit does not say what it was meant to say
        case['_skipped'] = True
        return []
    # a segment capped at 1 inside a group makes the group finder open a new group repetition when it recurs: the tree the
    # parser builds is then another (legal) one, so nothing is asserted about that text
    regrouped = kind == 'max1' and site['level'] == 'segment' and bool(site['groups']) and route != 'api'
    if case['route'] == 'parse-flat':
        # group finding switched off: the segments hang under the message, but they are still the profile's segments
        # (a segment named at several places of the structure has no single description to be parsed with)
        if kind != 'datatype' or site['count'] == 0 or any(site['multis']) or T.name_places(std).get(site['seg'], 0) != 1:
            case['_skipped'] = True
            return []
        from hl7apy import parser as P
        try:
            flat = P.parse_message('\r'.join(lines), validation_level=TOL, find_groups=False, message_profile=prof)
        except Exception as e:
            return [('C18-build-raises:parse-flat:%s:%s' % (kind, type(e).__name__), '%s: %s' % (desc0(v, m, kind, site), _exc(e)))]
        case['_site'] = (site['level'], bool(site['groups']), kind)
        for seg in [c for c in flat.children if c.name == site['seg']]:
            holders = [seg] if site['level'] == 'field' else [f for f in seg.children if f.name == site['field']]
            for holder in holders:
                for el in [c for c in holder.children if c.name == name]:
                    if el.datatype != newdt and not (T.is_base(v, newdt) and el.datatype is None):
                        return [('C18-parsed-child-ignores-profile-datatype:%s:parse-flat' % site['level'],
                                 '%s, find_groups=False -> element has datatype %r, profile says %r' % (desc0(v, m, kind, site), el.datatype, newdt))]
        return []
    if refarg:
        try:
            msg = build(v, m, tree, lines, 'api', level, None)
            errs, warns = report(msg, prof[m])
        except Exception as e:
            return [('C18-reference-argument-raises:%s' % type(e).__name__, '%s: %s' % (desc0(v, m, kind, site), _exc(e)))]
        d0 = desc0(v, m, kind, site)
        if violated and not [e for e in errs if name in e]:
            out.append(('C18-profile-violation-not-reported:%s:%s:reference-argument' % (kind, site['level']), '%s -> errors %r' % (d0, errs[:3])))
        if not violated and errs:
            out.append(('C18-profile-conforming-message-rejected:%s:%s:reference-argument' % (kind, site['level']), '%s -> errors %r' % (d0, errs[:3])))
        case['_site'] = (site['level'], bool(site['groups']), kind)
        return out
    case['_site'] = (site['level'], bool(site['groups']), kind)
    desc = '%s %s: %s %s at %s/%s (instance holds %d)' % (v, m, kind, newdt or '', '/'.join(site['groups'] + [site['seg']] + ([site['field']] if site['level'] == 'component' else [])), name, site['count'])
    try:
        msg = build(v, m, tree, lines, route, level, prof)
    except HL7apyException as e:
        if violated or regrouped or (level == STRICT and kind == 'datatype'):
            return []          # refusing is one way of enforcing the profile (STRICT: also content unfit for the new datatype)
        return [('C18-build-raises:%s:%s:%s' % (route, kind, type(e).__name__), '%s: %s' % (desc, _exc(e)))]
    except ValueError as e:
        if level == STRICT and kind == 'datatype':
            return []
        return [('C18-build-raises:%s:%s:%s' % (route, kind, type(e).__name__), '%s: %s' % (desc, _exc(e)))]
    except Exception as e:
        return [('C18-build-raises:%s:%s:%s' % (route, kind, type(e).__name__), '%s: %s' % (desc, _exc(e)))]
    if regrouped:
        return out
    if level == STRICT and violated and kind in ('forbid', 'max1', 'max2') and route != 'api' and not (
            kind == 'forbid' and site['level'] == 'field' and _open_ended(v, site['seg'])):
        out.append(('C18-strict-accepted-profile-violation:%s:%s' % (route, kind), desc))
    try:
        errs, warns = report(msg)
    except Exception as e:
        return out + [('C18-validate-raises:%s' % type(e).__name__, '%s: %s' % (desc, _exc(e)))]
    named = [e for e in errs if name in e]
    if violated and not named:
        out.append(('C18-profile-violation-not-reported:%s:%s:%s' % (kind, site['level'], route), '%s -> errors %r' % (desc, errs[:3])))
    if not violated and errs and kind != 'datatype':
        out.append(('C18-profile-conforming-message-rejected:%s:%s:%s' % (kind, site['level'], route), '%s -> errors %r' % (desc, errs[:3])))
    if kind == 'datatype' and site['count'] > 0:
        for el in [c for p in parents_of(msg, site) for c in p.children if c.name == name]:
            if el.datatype != newdt and not (T.is_base(v, newdt) and el.datatype is None):
                out.append(('C18-parsed-child-ignores-profile-datatype:%s:%s' % (site['level'], route), '%s -> element has datatype %r' % (desc, el.datatype)))
                break
    if not out:
        out.extend(probe_created_children(v, msg, site, kind, newdt, level))
    if not out and site['level'] == 'field' and kind in ('datatype', 'forbid', 'max1', 'max2') and case['pick'] % 2 == 0:
        # the segments that hold the edited field are now replaced by copies of the segments of a twin message built WITHOUT
        # the profile (message.<segment> = other.<segment>): the copies belong to the profile's message and follow the profile
        try:
            twin = build(v, m, tree, lines, 'api', level, None)
            mine, theirs = parents_of(msg, site), parents_of(twin, site)
            done = 0
            if len(mine) == len(theirs):
                for a, b in zip(mine, theirs):
                    pa, pb = a.parent, b.parent
                    if pa is None or pb is None or len([c for c in pa.children if c.name == a.name]) != 1 or \
                            len([c for c in pb.children if c.name == b.name]) != 1:
                        continue
                    before = pa.to_er7()
                    setattr(pa, a.name, getattr(pb, b.name))
                    if pa.to_er7() != before:
                        break               # (the twin differs in content: nothing to say)
                    done += 1
            if done:
                case['_copied'] = done
                more = probe_created_children(v, msg, site, kind, newdt, level)
                out.extend([(sig + ':after-copy-from-a-message-without-the-profile', d) for sig, d in more])
        except Exception as e:
            out.append(('C18-copy-probe-raises:%s' % type(e).__name__, '%s: %s' % (desc, _exc(e))))
    return out


def _forced(P, text, profile):
    """parse with the validation forced: a validation error is an answer, any other exception is not"""
    from hl7apy.exceptions import ValidationError
    try:
        return P.parse_message(text, message_profile=profile, force_validation=True)
    except ValidationError:
        return P.parse_message(text, message_profile=profile)


def check_special(case):
    import hl7apy
    from hl7apy.core import Message
    from hl7apy import parser as P
    from hl7apy.exceptions import MessageProfileNotFound, LegacyMessageProfile
    out = []
    v, m = case['v'], case['m']
    other = {'XXX_X01': copy_ref(T.message_ref(v, m))}
    text = 'MSH|^~\\&|A|B|C|D|20200101||%s|1|P|%s' % (S.msh9_text(v, m, R.DEFAULT_EC), v)
    # headers from which no structure name can be read: the profile cannot have that structure either
    nameless = ['MSH|^~\\&|A|B|C|D|20200101||ACK|1|P|%s' % v, 'MSH|^~\\&|A|B|C|D|20200101', 'MSH|^~\\&|A|B|C|D|20200101|||1|P|%s' % v,
                'MSH|^~\\&|A|B|C|D|20200101||%s|1|P|%s' % (m.split('_')[0], v)]
    for what, fn in (('Message', lambda: Message(m, version=v, reference=other)), ('parse_message', lambda: P.parse_message(text, message_profile=other)),
                     ('parse_message:one-part-type', lambda: P.parse_message(nameless[0], message_profile=other)),
                     ('parse_message:header-ends-before-type', lambda: P.parse_message(nameless[1], message_profile=other)),
                     ('parse_message:empty-type', lambda: P.parse_message(nameless[2], message_profile=other)),
                     ('parse_message:type-without-event', lambda: P.parse_message(nameless[3], message_profile={})),
                     ('Message:empty-profile', lambda: Message(m, version=v, reference={})),
                     ('Message:lower-case', lambda: Message(m.lower(), version=v, reference=other)),
                     ('Message:capitalised', lambda: Message(m.capitalize(), version=v, reference=other)),
                     ('Message:lower-case:empty-profile', lambda: Message(m.lower(), version=v, reference={})),
                     ('parse_message:lower-case', lambda: P.parse_message(text.replace(S.msh9_text(v, m, R.DEFAULT_EC), S.msh9_text(v, m, R.DEFAULT_EC).lower()), message_profile=other)),
                     ('parse_message:empty-profile', lambda: P.parse_message(text, message_profile={}))):
        try:
            fn()
            out.append(('C18-missing-structure-accepted:%s' % what, '%s %s' % (v, m)))
        except MessageProfileNotFound:
            pass
        except Exception as e:
            out.append(('C18-missing-structure-wrong-exception:%s:%s' % (what, type(e).__name__), _exc(e)))
    # names are not case sensitive (Message('adt_a01') is an ADT_A01): a restating profile must not change that
    restating = {m: copy_ref(T.message_ref(v, m))}
    ltext = 'MSH|^~\\&|A|B|C|D|20200101||%s|1|P|%s' % (S.msh9_text(v, m, R.DEFAULT_EC).lower(), v)
    for what, plain, withp in (('Message', lambda: Message(m.lower(), version=v), lambda: Message(m.lower(), version=v, reference=restating)),
                               ('parse_message', lambda: P.parse_message(ltext), lambda: P.parse_message(ltext, message_profile=restating)),
                               ('parse_message:force_validation', lambda: P.parse_message(ltext), lambda: _forced(P, ltext, restating))):
        try:
            a = plain().name
        except Exception:
            continue        # not accepted without a profile either: nothing to compare
        try:
            b = withp().name
            if a != b:
                out.append(('C18-restating-profile-changes-lower-case-name:%s' % what, '%s %s: %r vs %r' % (v, m, a, b)))
        except Exception as e:
            out.append(('C18-restating-profile-refuses-lower-case-name:%s:%s' % (what, type(e).__name__), '%s %s: %s' % (v, m.lower(), _exc(e))))
    pdir = os.path.join(common.REPO, 'tests', 'profiles')
    if case.get('files') and os.path.isdir(pdir):
        try:
            legacy = hl7apy.load_message_profile(os.path.join(pdir, 'old_pharm_h4'))
            name = sorted(legacy)[0]
            for what, fn in (('Message', lambda: Message(name, reference=legacy)), ('Message:lower-case', lambda: Message(name.lower(), reference=legacy)),
                             ('parse_message', lambda: P.parse_message('MSH|^~\\&|A|B|C|D|20200101||RAS^O17^RAS_O17|1|P|2.5', message_profile=legacy))):
                try:
                    fn()
                    out.append(('C18-legacy-profile-accepted:%s' % what, name))
                except LegacyMessageProfile:
                    pass
                except Exception as e:
                    out.append(('C18-legacy-profile-wrong-exception:%s:%s' % (what, type(e).__name__), _exc(e)))
            iti = hl7apy.load_message_profile(os.path.join(pdir, 'iti_21'))
            msg = Message('RSP_K21', reference=iti, version='2.5')
            qpd3 = msg.qpd.qpd_3.datatype
            if qpd3 != 'QIP':
                out.append(('C18-iti21-datatype-not-from-profile', 'QPD_3 has datatype %r, the profile says QIP' % qpd3))
            # ITI-21 gives TS_2 (degree of precision) the datatype ST where the standard says ID: text assigned to that
            # sub-component, or to the component above it, builds the profile's elements (both levels)
            for lvl in (STRICT, TOL):
                for how in ('subcomponent', 'path', 'component'):
                    mm = Message('RSP_K21', reference=iti, version='2.5', validation_level=lvl)
                    pid5 = mm.rsp_k21_query_response.pid.pid_5
                    try:
                        if how == 'subcomponent':
                            pid5.xpn_12.ts_2 = 'D'
                        elif how == 'path':
                            pid5.pid_5_12_2 = 'D'
                        else:
                            pid5.xpn_12 = '20200101&D'
                        got = pid5.xpn_12.ts_2.datatype
                        if got != 'ST':
                            out.append(('C18-iti21-text-assignment-ignores-profile:%s' % how, 'level %d: TS_2 has datatype %r, the profile says ST' % (lvl, got)))
                        errs = [e for e in report(mm)[0] if e.startswith('Datatype') and 'TS_2' in e]
                        if errs:
                            out.append(('C18-iti21-text-assignment-fails-validation:%s' % how, 'level %d: %r' % (lvl, errs[:2])))
                    except Exception as e:
                        out.append(('C18-iti21-text-assignment-raises:%s:%s' % (how, type(e).__name__), 'level %d: %s' % (lvl, _exc(e))))
            t = 'MSH|^~\\&|A|B|C|D|20200101||RSP^K22^RSP_K21|1|P|2.5\rMSA|AA|1\rQAK|1|OK\rQPD|IHE PDQ Query|1|@PID.5.1.1^SMITH~@PID.8^M'
            p = P.parse_message(t, message_profile=iti)
            if [f.datatype for f in p.qpd.qpd_3] != ['QIP', 'QIP']:
                out.append(('C18-iti21-datatype-not-from-profile', 'parsed QPD_3 datatypes %r' % [f.datatype for f in p.qpd.qpd_3]))
        except Exception as e:
            out.append(('C18-shipped-profile-raises:%s' % type(e).__name__, _exc(e)))
    return out


def check(case, acc=None):
    if case['kind'] == 'special':
        return check_special(case)
    return check_edit(case, acc)


def replay(case, acc):
    return check(case)


KINDS = ('restate', 'require', 'max1', 'max2', 'forbid', 'datatype', 'datatype', 'require', 'forbid', 'max2')


@st.composite
def cases(draw, cells):
    v, m = draw(st.sampled_from(cells))
    mode = draw(st.sampled_from(['required', 'random', 'repeat', 'repeat']))
    tree = draw(G.instances(v, m, mode=mode, unique=True))
    lines = draw(G.instance_lines(v, m, tree, R.full(R.DEFAULT_EC), conforming=True, p_opt=draw(st.sampled_from([1, 2, 3]))))
    eligible = G.eligible(v, m, tree)
    route = draw(st.sampled_from(['api', 'parse', 'value', 'refarg', 'parse-flat'] if eligible else ['api', 'api', 'refarg', 'parse-flat']))
    kind = draw(st.sampled_from(KINDS))
    if route == 'parse-flat':
        kind = 'datatype'           # (the only edit this route judges)
    return {'kind': kind, 'v': v, 'm': m, 'tree': tree, 'lines': lines, 'route': route,
            'level': draw(st.sampled_from([TOL, TOL, STRICT])), 'pick': draw(st.integers(0, 5000))}


def _run(case, acc):
    vs = check(case, acc)
    site = case.pop('_site', None)
    skipped = case.pop('_skipped', False)
    nt = bool(site) and (site[0] in ('field', 'component') or site[1])
    small = dict(case, tree=G.shape(case['tree']))
    acc.case(h([case['v'], case['m'], case['kind'], case['route'], case['level'], case['pick'], case['lines']]), nt,
             sample=small if sum(len(l) for l in case['lines']) < 600 else None,
             label='%s:%s:%s' % (case['kind'], case['route'], 'no-site' if skipped else (site[0] if site else 'message')))
    if G.has_repeated_group(case['tree']):
        acc.label('instance-with-repeated-group')
    return vs


def run_shard(shard, acc):
    if shard['kind'] == 'special':
        for i, (v, m) in enumerate(shard['cells']):
            case = {'kind': 'special', 'v': v, 'm': m, 'files': i == 0}
            for sig, detail in check(case):
                acc.violation(sig, case, detail)
            acc.case(None, True, sample=case, label='special', enumerated=True)
        return
    hyp_collect(acc, cases([tuple(c) for c in shard['cells']]), _run, shard['seed'], shard['n'], shard['shrink'], rounds=6)


def plan(tier, seed):
    cells = c04.message_cells()
    import random
    rnd = random.Random(seed)
    q = tier == 'quick'
    shards = [{'kind': 'special', 'cells': rnd.sample(cells, 12 if q else 200)}]
    n = 15 if q else 47
    for i in range(n):
        shards.append({'kind': 'edits', 'cells': cells[i::n], 'seed': seed * 1000 + i, 'n': 90 if q else 900, 'shrink': not q})
    return shards
