"""C05 - STRICT accepts a subset of TOLERANT and enforces what validate() checks."""
from hypothesis import strategies as st

from hv import tables as T
from hv import refmodel as R
from hv import strategies as S
from hv import msggen as G
from hv import lit
from hv.common import hyp_collect, h
from hv.props import c09, c13

ID = 'C05'
LEVEL = 'exploration'
EXHAUSTIVE = {}
RULE = ('(a) inputs: Hypothesis draws segment lines for every real segment of every version and whole in-structure messages, with '
        'leaves from a literal zoo (valid, invalid and over-long literals per base datatype) and shapes within and one beyond the '
        'tables (extra repetitions of non-repeatable fields, components beyond the datatype, components in base-datatype fields, '
        'fields beyond the table); each text is parsed under STRICT and under TOLERANT, in either order; (b) histories: the operation '
        'sequences of C09 are applied in lock step to a STRICT and a TOLERANT element (an operation STRICT refuses is not applied to '
        'the TOLERANT twin). Oracle: whatever STRICT accepts TOLERANT accepts, with equal to_er7() and equal validation reports; a '
        'STRICT-accepted element draws no validator error other than "Missing required child", no over-length warning, and every '
        'DT/TM/DTM/NM/SI leaf it holds is lexically valid (reference of C13) and within its maximum length. Non-trivial = a '
        'STRICT-accepted case with at least two populated children; distinct by hash of (entry, version, text or operations).')
ASSUMPTIONS = [
    'if STRICT rejects, nothing is asserted about TOLERANT (subset, not equality)',
    'group-level children are created in structure order (STRICT encodes groups in structure order, TOLERANT in creation order: documented)',
]
TECHNIQUE = 'Hypothesis differential testing STRICT vs TOLERANT over generated texts and lock-step operation sequences; validator and lexical reference as oracles'
LEVEL_TEXT = 'exploration: sampled texts over all (version, segment) cells and message structures, sampled lock-step histories'
LEVEL_NOTE = 'trusted: the C13 lexical reference for leaf validity, the textual prefixes of validator messages'

STRICT, TOL = 1, 2
OVERLONG = {'ST': 'x' * 200, 'IS': 'x' * 21, 'NM': '1' * 17, 'NM#2': '0.0000000000000001', 'SI': '12345', 'GTS': 'x' * 200, 'WD': 'x' * 200, 'TN': '5' * 200,
            'ID': 'x' * 300, 'FT': 'x' * 300, 'TX': 'x' * 300}
INVALID = {'NM': ['abc', '1e5', '1,5', '--1', 'NaN'], 'SI': ['-1', 'x', '1.5', '1_0'], 'DT': ['20201301', '2020-01-01', '202', '20200230'],
           'TM': ['2500', '12:00', '126', '1260'], 'DTM': ['2020133', '20201301', '2020010125', '2020+1500'], 'TN': ['abc', 'x']}


def zoo_leaf(v, dt, ec):
    base = S.valid_leaf(v, dt, ec)
    extra = []
    if dt in INVALID:
        extra.append(st.sampled_from(INVALID[dt]))
    if dt in OVERLONG:
        extra.append(st.just(OVERLONG[dt]))
    if dt and dt + '#2' in OVERLONG:
        extra.append(st.just(OVERLONG[dt + '#2']))      # (few significant digits: short in scientific notation, long as written)
    if not extra:
        return base
    return st.one_of(base, base, base, *extra)


@st.composite
def segment_cases(draw, cells):
    v, s = draw(st.sampled_from(cells))
    ec = S.default_ec(v)
    k = draw(st.integers(0, 9))
    leaf_fn = zoo_leaf if k < 6 else S.valid_leaf
    line = draw(S.segment_line(v, s, ec, leaf_fn=leaf_fn, p_fill=2))
    flags = []
    if draw(st.integers(0, 5)) == 0:
        rows = T.seg_fields(v, s)
        name, fields = R.split_segment(line, ec)
        last = max(fields)
        row = [r for r in rows if r[1] == last]
        ncomp = len(T.ref_children(v, row[0][2]) or ()) if row else 0
        line = line + '^' * max(ncomp, 1) + 'q'
        flags.append('extra-component')
    elif draw(st.integers(0, 5)) == 0:
        rows = T.seg_fields(v, s)
        name, fields = R.split_segment(line, ec)
        line = line + '|' * (rows[-1][1] - max(fields) + 1) + 'q'
        flags.append('extra-field')
    return {'kind': 'segment', 'v': v, 's': s, 'text': line, 'order': draw(st.sampled_from(['strict-first', 'tolerant-first'])),
            'flags': flags}


@st.composite
def message_cases(draw, cells):
    v, m = draw(st.sampled_from(cells))
    tree = draw(G.instances(v, m, mode=draw(st.sampled_from(['required', 'random'])), unique=True))
    ec = R.full(R.DEFAULT_EC)
    lines = draw(G.instance_lines(v, m, tree, ec, conforming=True, p_opt=1))
    flags = []
    order_ok = G.eligible(v, m, tree)
    for zk in range(draw(st.sampled_from([0, 0, 0, 1, 2, 3, 3]))):
        # locally defined segments: accepted at any place by both levels; they have no place in the structure, so STRICT
        # (structure order) may encode them elsewhere than TOLERANT (creation order): lines compared as a multiset
        z = R.enc_segment(draw(st.sampled_from(['ZXX', 'ZA1', 'ZA1'])), {1: draw(S.textual_leaf(v, ec, 1)), 2: 'u%d' % zk, 3: draw(S.textual_leaf(v, ec, 2))}, ec)      # (field 2 makes the line unique)
        lines.insert(draw(st.integers(1, len(lines))), z)
        flags.append('z-segment')
        order_ok = False
    return {'kind': 'message', 'v': v, 'm': m, 'text': '\r'.join(lines), 'order': draw(st.sampled_from(['strict-first', 'tolerant-first'])),
            'flags': flags, 'compare_order': order_ok}


def _parse(case, level):
    from hl7apy import parser as P
    if case['kind'] == 'segment':
        return P.parse_segment(case['text'], version=case['v'], validation_level=level)
    return P.parse_message(case['text'], validation_level=level, find_groups=True)


def _report(el):
    r = el.validate(return_errors=True)
    return [str(e) for e in r.errors], [str(w) for w in r.warnings]


def walk_leaves(el):
    if type(el).__name__ == 'SubComponent':
        yield el
        return
    for c in el.children:
        for x in walk_leaves(c):
            yield x


def strict_obligations(el, v, what):
    """what a STRICT-accepted element must satisfy"""
    out = []
    try:
        errs, warns = _report(el)
    except Exception as e:
        return [('C05-validate-raises:%s' % type(e).__name__, '%s: %s' % (what, e))]
    for e in errs:
        if not e.startswith('Missing required child'):
            kind = e.split(' for ')[0].split(' found')[0].split(' is not')[0][:40]
            openended = ''
            if e.startswith('Invalid children detected for <Segment'):
                seg = e.split('<Segment ')[1].split('>')[0]
                rows = T.seg_fields(v, seg) if seg in T.segments(v) else None
                if rows and rows[-1][2][2] == 'varies':
                    openended = ':fields-beyond-an-open-ended-segment'
            out.append(('C05-strict-accepted-but-validator-reports:%s%s' % (kind.split(' ')[0] + '-' + kind.split(' ')[1] if ' ' in kind else kind, openended),
                        '%s -> %s' % (what, e)))
            break
    for w in warns:
        if w.startswith('Exceeded max length'):
            out.append(('C05-strict-accepted-over-length-value', '%s -> %s' % (what, w)))
            break
    for sc in walk_leaves(el):
        dt = sc.datatype
        try:
            text = sc.to_er7()
        except Exception:
            continue
        if not text:
            continue
        if dt in c13.REF and c13.REF[dt](text) == 'invalid':
            out.append(('C05-strict-holds-invalid-%s-leaf' % dt, '%s: %r' % (what, text)))
            break
        val = sc.value
        cls = T.lib(v).BASE_DATATYPES.get(dt)
        if cls is not None and val is not None and type(val).__name__ != dt and dt in c13.REF:
            out.append(('C05-strict-leaf-of-foreign-class', '%s: %s leaf holds a %s object (%r)' % (what, dt, type(val).__name__, text)))
            break
        mx = getattr(val, 'max_length', None)
        if mx is not None and dt in ('ST', 'IS', 'NM', 'SI') and len(text) > mx and c13.PLAIN.match(text or 'x') is not False and \
                (dt not in ('NM', 'SI') or c13.PLAIN.match(text)):
            out.append(('C05-strict-holds-over-long-%s-leaf' % dt, '%s: %d chars' % (what, len(text))))
            break
    return out


def check_input(case, acc=None):
    from hl7apy.exceptions import HL7apyException
    out = []
    res = {}
    order = [STRICT, TOL] if case['order'] == 'strict-first' else [TOL, STRICT]
    for level in order:
        try:
            res[level] = ('ok', _parse(case, level))
        except (HL7apyException, ValueError) as e:
            res[level] = ('rejected', e)
        except Exception as e:
            return [('C05-parse-crashes:%s' % type(e).__name__, 'level %d %r: %s' % (level, case['text'][:200], e))]
    s, t = res[STRICT], res[TOL]
    if acc is not None:
        acc.extra['strict:' + (s[0] if s[0] == 'ok' else 'rejected:' + type(s[1]).__name__)] += 1
    case['_accepted'] = s[0] == 'ok'
    if s[0] != 'ok':
        return out
    what = '%s %r' % (case['v'], case['text'][:160])
    if t[0] != 'ok':
        return [('C05-strict-accepts-what-tolerant-rejects', '%s: TOLERANT raised %s: %s' % (what, type(t[1]).__name__, t[1]))]
    try:
        es, et = s[1].to_er7(), t[1].to_er7()
        if not case.get('compare_order', True):
            # a segment name that occurs at several places may be grouped at another place than the text order suggests;
            # STRICT then encodes in structure order and TOLERANT in creation order (documented): compare as multisets
            # locally defined segments have no place in the structure: STRICT encodes them after the placed children of their
            # own parent - but among themselves in the order in which that parent lists them (as TOLERANT does)
            def z_orders(el):
                kids = [c for c in el.children if type(c).__name__ == 'Segment' and c.name[:1] == 'Z']
                if len(kids) > 1:
                    mine = [k.to_er7() for k in kids]
                    lines = [l for l in el.to_er7().split('\r') if l in set(mine)]
                    if [l for l in lines if l[:1] == 'Z'] != mine and len(set(mine)) == len(mine):
                        return (mine, lines)
                for c in el.children:
                    if type(c).__name__ == 'Group':
                        r = z_orders(c)
                        if r:
                            return r
                return None
            zo = z_orders(s[1])
            if zo:
                out.append(('C05-locally-defined-segments-reordered', '%s\nlisted   %r\nencoded  %r' % (what, zo[0][:6], zo[1][:6])))
            es, et = sorted(es.split('\r')), sorted(et.split('\r'))
        if es != et:
            out.append(('C05-encodings-differ', '%s\nSTRICT   %r\nTOLERANT %r' % (what, es[:300], et[:300])))
        rs, rt = _report(s[1]), _report(t[1])
        if rs != rt:
            out.append(('C05-validation-reports-differ', '%s\nSTRICT   %r\nTOLERANT %r' % (what, rs[0][:3] + rs[1][:2], rt[0][:3] + rt[1][:2])))
    except Exception as e:
        out.append(('C05-compare-raises:%s' % type(e).__name__, '%s: %s' % (what, e)))
    out.extend(strict_obligations(s[1], case['v'], what))
    return out


# ---------------------------------------------------------------------------------------------
# lock-step histories (worlds and operations of C09, one STRICT one TOLERANT)

def check_history(case, acc=None):
    cell = case['cell']
    old = c09.TOL
    try:
        c09.TOL = STRICT
        ws = c09.make_world(cell)
        c09.TOL = TOL
        wt = c09.make_world(cell)
    except Exception as e:
        c09.TOL = old
        if type(e).__name__ in ('MaxChildLimitReached', 'InvalidName'):
            # the drawn cell holds a withdrawn (0,0) position (STRICT refuses to populate it, by design) or a component name
            # that this version's tables do not define as a stand-alone element
            if acc is not None:
                acc.excluded['history cell with a withdrawn position under STRICT'] += 1
            return []
        return [('C05-history-setup-raises:%s' % type(e).__name__, str(e)[:200])]
    finally:
        c09.TOL = old
    accepted = 0
    for n, op in enumerate(case['ops']):
        c09.TOL = STRICT
        try:
            snap_model = _copy_model(ws)
            vs, kind = c09.apply_op(ws, op)
        finally:
            c09.TOL = old
        rejected = any(s.startswith('C09-operation-raises') for s, d in vs)
        if rejected or kind == 'skipped':
            _restore_model(ws, snap_model)
            if acc is not None and rejected:
                acc.extra['history:strict-rejected'] += 1
            # STRICT refused: the element must still be usable; resynchronise the model from the element
            continue
        accepted += 1
        vt, kt = c09.apply_op(wt, op)
        if any(s.startswith('C09-operation-raises') for s, d in vt):
            case['_accepted'] = accepted
            return [('C05-history-strict-accepts-what-tolerant-rejects', 'step %d %r: %s' % (n + 1, op, vt[0][1]))]
        try:
            if cell['kind'] in ('segment', 'field'):
                es, et = ws.el.to_er7(), wt.el.to_er7()
                if es != et:
                    case['_accepted'] = accepted
                    return [('C05-history-encodings-differ', 'step %d %r: STRICT %r TOLERANT %r' % (n + 1, op, es, et))]
            v = strict_obligations(ws.el, cell['v'], 'history step %d %r' % (n + 1, op))
            if v:
                case['_accepted'] = accepted
                return v[:1]
        except Exception as e:
            case['_accepted'] = accepted
            return [('C05-history-compare-raises:%s' % type(e).__name__, 'step %d %r: %s' % (n + 1, op, e))]
    case['_accepted'] = accepted
    return []


def _copy_model(w):
    if isinstance(w, c09.ListWorld):
        return [list(x) for x in w.order]
    return dict((k, list(v)) for k, v in w.model.items())


def _restore_model(w, snap):
    if isinstance(w, c09.ListWorld):
        w.order = snap
    else:
        w.model = snap


@st.composite
def history_cases(draw, versions):
    cell = draw(c09.cells(versions))
    cell['start'] = False         # the parsed start state of C09 holds two repetitions, which STRICT may refuse by design
    if cell['kind'] in ('message', 'group'):
        cell = c09.segment_cell(cell['v'], 'PID', [0, 2, 4], False)
    ops = draw(st.lists(c09.op_for(cell), min_size=1, max_size=12))
    return {'kind': 'history', 'cell': cell, 'ops': ops}


# ---------------------------------------------------------------------------------------------

def check(case, acc=None):
    if case['kind'] == 'history':
        return check_history(case, acc)
    if case['kind'] == 'override':
        return check_override(case, acc)
    if case['kind'] == 'ctor':
        return check_ctor(case)[0]
    if case['kind'] == 'dup':
        return check_dup_strict(case)
    if case['kind'] == 'overlong':
        return check_overlong(case['v'], case['dt'])[0]
    return check_input(case, acc)


def replay(case, acc):
    return check(case)


def _run(case, acc):
    vs = check(case, acc)
    acc_flag = case.pop('_accepted', False)
    if case['kind'] == 'history':
        acc.case(h([case['cell'], case['ops']]), bool(acc_flag) and acc_flag >= 2, sample=case, label='history')
    else:
        text = case['text']
        populated = text.count('|') + text.count('\r')
        acc.case(h([case['kind'], case['v'], text, case['order']]), bool(acc_flag) and populated >= 2,
                 sample=case if len(text) < 500 else None,
                 label='%s:%s' % (case['kind'], 'strict-accepted' if acc_flag else 'strict-rejected'))
        for f in case['flags']:
            acc.label('flag:' + f)
    return vs


DT_POOL = ('ST', 'NM', 'ID', 'CE', 'CX', 'XPN', 'TX', 'DT', 'HD', 'CWE', 'varies')


def check_override(case, acc=None):
    """a datatype assigned to an existing STRICT field / component: refused, or - if taken - the element still validates"""
    from hl7apy.core import Segment
    from hl7apy.exceptions import HL7apyException
    v, s, fname, newdt, depth = case['v'], case['s'], case['f'], case['dt'], case['depth']
    out = []
    what = '%s %s.%s datatype := %s' % (v, s, fname, newdt)
    try:
        if case.get('via') == 'constructor':
            # the other datatype is given to the constructor of the (named) field / component, which is then attached
            from hl7apy.core import Field, Component
            row = {r[0]: r for r in T.seg_fields(v, s)}[fname]
            old = row[2][2]
            ch = T.ref_children(v, row[2])
            try:
                seg = Segment(s, version=v, validation_level=STRICT)
                if depth == 2:
                    if not ch:
                        return []
                    cname, _, cref, _ = ch[case['ci'] % len(ch)]
                    old = cref[2]
                    if newdt == old:
                        return []
                    f = seg.add_field(fname)
                    case['_nt'] = True
                    target = Component(cname, datatype=newdt, version=v, validation_level=STRICT)
                    f.add(target)
                else:
                    if newdt == old:
                        return []
                    case['_nt'] = True
                    target = Field(fname, datatype=newdt, version=v, validation_level=STRICT)
                    seg.add(target)
            except (HL7apyException, ValueError):
                if acc is not None:
                    acc.extra['override:constructor:refused'] += 1
                return []
            if target.datatype == old:
                return []
            if acc is not None:
                acc.extra['override:constructor:taken:%s' % old] += 1
            try:
                target.value = 'a^b' if newdt == 'varies' else lit.valid(newdt if T.is_base(v, newdt) else 'ST', 1)
            except (HL7apyException, ValueError):
                pass
            errs, warns = _report(seg)
            bad = [e for e in errs if not e.startswith('Missing required child')]
            if bad:
                out.append(('C05-strict-let-a-datatype-be-overridden:constructor', '%s (was %s) through the constructor: accepted, then validate() reports %s' % (
                    what, old, bad[:2])))
            return out
        try:
            seg = Segment(s, version=v, validation_level=STRICT)
            f = seg.add_field(fname)
            target = f
            if depth == 2:
                ch = T.ref_children(v, {r[0]: r for r in T.seg_fields(v, s)}[fname][2])
                if not ch:
                    return []
                target = f.add_component(ch[case['ci'] % len(ch)][0])
        except HL7apyException:
            return []          # e.g. a withdrawn position: STRICT does not build it at all
        old = target.datatype
        if newdt == old or not (T.is_base(v, newdt) or newdt in T.complex_datatypes(v) or newdt == 'varies'):
            return []
        case['_nt'] = True
        try:
            target.datatype = newdt
        except (HL7apyException, ValueError):
            if acc is not None:
                acc.extra['override:refused'] += 1
            return []
        if target.datatype == old:
            return []
        if acc is not None:
            acc.extra['override:taken:%s' % old] += 1
        if T.is_base(v, newdt):
            try:
                target.value = lit.valid(newdt, 1)
            except (HL7apyException, ValueError):
                pass
        errs, warns = _report(seg)
        bad = [e for e in errs if not e.startswith('Missing required child')]
        if bad:
            out.append(('C05-strict-let-a-datatype-be-overridden', '%s (was %s): accepted, then validate() reports %s' % (what, old, bad[:2])))
    except Exception as e:
        return [('C05-override-raises:%s' % type(e).__name__, '%s: %s' % (what, e))]
    return out


@st.composite
def override_cases(draw, cells):
    v, s = draw(st.sampled_from(cells))
    rows = T.seg_fields(v, s)
    varies = [r for r in rows if r[2][2] == 'varies']
    row = draw(st.sampled_from(varies)) if (varies and draw(st.booleans())) else draw(st.sampled_from(rows))
    return {'kind': 'override', 'v': v, 's': s, 'f': row[0], 'dt': draw(st.sampled_from(DT_POOL + ('varies',))), 'depth': draw(st.sampled_from([1, 1, 2])),
            'ci': draw(st.integers(0, 20)), 'via': draw(st.sampled_from(['setter', 'constructor']))}


def check_overlong(v, dt):
    """one character more than the maximum length of a textual class, offered to STRICT elements of that datatype"""
    from hl7apy.core import SubComponent, Component
    from hl7apy.exceptions import HL7apyException
    cls = T.lib(v).BASE_DATATYPES[dt]
    mx = (cls('5551234') if dt == 'TN' else cls('a')).max_length
    if mx is None or mx > 100000:
        return [], False
    text = ('5' if dt == 'TN' else 'a') * (mx + 1)
    out = []
    def as_object(target):
        # the same text wrapped in a datatype object that was built elsewhere (under TOLERANT)
        target.value = cls(text, validation_level=TOL)
    for what, fn in (('SubComponent', lambda: SubComponent(datatype=dt, value=text, version=v, validation_level=STRICT)),
                     ('Component', lambda: setattr(Component(datatype=dt, version=v, validation_level=STRICT), 'value', text)),
                     ('SubComponent.value = object', lambda: as_object(SubComponent(datatype=dt, version=v, validation_level=STRICT))),
                     ('Component.value = object', lambda: as_object(Component(datatype=dt, version=v, validation_level=STRICT)))):
        try:
            fn()
            out.append(('C05-strict-holds-over-long-%s-leaf' % dt, 'v%s %s(datatype=%s) under STRICT took %d characters (maximum %d)' % (v, what, dt, mx + 1, mx)))
        except (HL7apyException, ValueError):
            pass
        except Exception as e:
            out.append(('C05-overlong-raises:%s' % type(e).__name__, 'v%s %s %s: %s' % (v, what, dt, e)))
    # and an object of another class: a STRICT leaf holds values of its own datatype only
    other = 'NM' if dt != 'NM' else 'ST'
    ocls = T.lib(v).BASE_DATATYPES.get(other)
    if ocls is not None and dt != 'varies':
        try:
            sc = SubComponent(datatype=dt, version=v, validation_level=STRICT)
            sc.value = ocls(7) if other == 'NM' else ocls('abc')
            if type(sc.value).__name__ != dt:
                out.append(('C05-strict-leaf-of-foreign-class', 'v%s SubComponent(datatype=%s) under STRICT took a %s object' % (v, dt, other)))
        except (HL7apyException, ValueError):
            pass
        except Exception as e:
            out.append(('C05-overlong-raises:%s' % type(e).__name__, 'v%s %s foreign object: %s' % (v, dt, e)))
    return out, True


def check_ctor(case):
    """a stand-alone element built by its constructor (class, name or none, datatype or none): what STRICT builds TOLERANT builds
    too, under the same name and datatype, and both encode the same after the same value was given"""
    from hl7apy import core
    from hl7apy.exceptions import HL7apyException
    v, cls, name, dt = case['v'], case['cls'], case['name'], case['dt']
    C = getattr(core, cls)

    def build(level):
        kw = {'version': v, 'validation_level': level}
        if dt is not None:
            kw['datatype'] = dt
        return C(name, **kw) if name is not None else C(**kw)
    what = '%s %s(%r%s)' % (v, cls, name, '' if dt is None else ', datatype=%r' % dt)
    try:
        es = build(STRICT)
    except (HL7apyException, ValueError):
        return [], False
    except Exception as e:
        return [('C05-constructor-raises:%s' % type(e).__name__, '%s under STRICT: %s' % (what, e))], True
    try:
        et = build(TOL)
    except Exception as e:
        return [('C05-constructor-strict-accepts-what-tolerant-rejects:%s' % type(e).__name__, '%s: STRICT builds %r, TOLERANT raises %s' % (what, es, e))], True
    if (es.name, es.datatype) != (et.name, et.datatype):
        return [('C05-constructor-result-differs', '%s: STRICT (%r, %r) TOLERANT (%r, %r)' % (what, es.name, es.datatype, et.name, et.datatype))], True
    val = case['val']
    try:
        es.value = val
    except (HL7apyException, ValueError):
        return [], True
    except Exception as e:
        return [('C05-constructor-value-raises:%s' % type(e).__name__, '%s under STRICT, value %r: %s' % (what, val, e))], True
    try:
        et.value = val
        a, b = es.to_er7(), et.to_er7()
    except Exception as e:
        return [('C05-constructor-strict-accepts-what-tolerant-rejects:value:%s' % type(e).__name__, '%s value %r: %s' % (what, val, e))], True
    if a != b:
        return [('C05-constructor-encodings-differ', '%s value %r: STRICT %r TOLERANT %r' % (what, val, a, b))], True
    return [], True


def ctor_cases(v, rnd):
    segs = [x for x in T.segments(v) if x != 'MSH']
    cds = list(T.complex_datatypes(v))
    fields = []
    for s in rnd.sample(segs, 4) + [x for x in ('OBX', 'PID') if x in segs]:
        rows = T.seg_fields(v, s)
        fields += [r[0] for r in rnd.sample(list(rows), min(2, len(rows)))] + [r[0] for r in rows if r[2][2] == 'varies'][:1]
    comps = []
    for d in rnd.sample(cds, min(5, len(cds))):
        ch = T.dt_children(v, d)
        comps += [c[0] for c in rnd.sample(list(ch), min(2, len(ch)))]
    dts = [None, 'ST', 'NM', 'varies', 'ID'] + rnd.sample(cds, min(3, len(cds)))
    for cls, names in (('Field', fields + [None]), ('Component', comps + ['VARIES_1', 'VARIES_3', 'VARIES_12', None]),
                       ('SubComponent', comps[:4] + [None])):
        for name in names:
            for dt in dts:
                yield {'kind': 'ctor', 'v': v, 'cls': cls, 'name': name, 'dt': dt,
                       'val': rnd.choice(['a', '12', 'a^b', 'a&b']) if cls != 'SubComponent' else rnd.choice(['a', '12'])}


def check_dup_strict(case):
    """a structure that lists one optional segment twice among the children of the message (with different maxima): as many of
    them as STRICT accepts, the validator accepts too"""
    from hl7apy.core import Message
    from hl7apy.exceptions import HL7apyException
    v, m, name = case['v'], case['m'], case['name']
    try:
        msg = Message(m, version=v, validation_level=STRICT)
        accepted = 0
        for _ in range(case['n']):
            try:
                msg.add_segment(name)
                accepted += 1
            except HL7apyException:
                pass
        errs, warns = _report(msg)
    except Exception as e:
        return [('C05-duplicate-sibling-raises:%s' % type(e).__name__, '%s %s %s: %s' % (v, m, name, e))]
    bad = [e for e in errs if not e.startswith('Missing required child')]
    if bad:
        return [('C05-strict-accepted-but-validator-reports:duplicate-sibling', '%s %s: STRICT took %d x %s, validate() reports %s' % (v, m, accepted, name, bad[:2]))]
    return []


def dup_cases():
    import collections
    from hv.props import c04
    for v, m in c04.dup_sibling_structures():
        rows = T.struct_children(T.message_ref(v, m))
        cnt = collections.Counter(n for n, r, c, k in rows)
        for name in sorted(n for n in cnt if cnt[n] > 1):
            rs = [(c, k) for n, r, c, k in rows if n == name]
            if any(c[0] > 0 for c, k in rs) or any(k != 'SEG' for c, k in rs) or name not in T.segments(v):
                continue            # (required duplicates are the known finding V1 of C04; groups need content)
            for n in (2, 3):
                yield {'kind': 'dup', 'v': v, 'm': m, 'name': name, 'n': n}


def run_shard(shard, acc):
    k = shard['kind']
    if k == 'dups':
        for case in dup_cases():
            for sig, detail in check_dup_strict(case):
                acc.violation(sig, case, detail)
            acc.case(None, True, sample=case, label='duplicate-optional-sibling', enumerated=True)
        return
    if k == 'ctor':
        import random
        for v in T.VERSIONS:
            for case in ctor_cases(v, random.Random(shard['seed'] * 31 + T.VERSIONS.index(v))):
                vs, nt = check_ctor(case)
                for sig, detail in vs:
                    acc.violation(sig, case, detail)
                acc.case(None, nt, sample=case, label='constructor:%s' % case['cls'], enumerated=True)
        return
    if k == 'lengths':
        for v in T.VERSIONS:
            for dt in sorted(T.textual_classes(v)):
                case = {'kind': 'overlong', 'v': v, 'dt': dt}
                vs, nt = check_overlong(v, dt)
                for sig, detail in vs:
                    acc.violation(sig, case, detail)
                acc.case(None, nt, sample=case, label='over-long-by-one', enumerated=True)
        return
    if k == 'override':
        def run(case, acc):
            vs = check_override(case, acc)
            acc.case(h(case), case.pop('_nt', False), sample=case, label='datatype-override')
            return vs
        hyp_collect(acc, override_cases([tuple(c) for c in shard['cells'] if T.seg_fields(c[0], c[1]) and not T.segment_defect(c[0], c[1])]),
                    run, shard['seed'], shard['n'], shard['shrink'], rounds=4)
        return
    if k == 'segment':
        hyp_collect(acc, segment_cases([tuple(c) for c in shard['cells']]), _run, shard['seed'], shard['n'], shard['shrink'], rounds=6)
    elif k == 'message':
        hyp_collect(acc, message_cases([tuple(c) for c in shard['cells']]), _run, shard['seed'], shard['n'], shard['shrink'], rounds=6)
    else:
        hyp_collect(acc, history_cases(shard['versions']), _run, shard['seed'], shard['n'], shard['shrink'], rounds=6)


def plan(tier, seed):
    from hv.props import c01
    cells = c01.all_cells()
    mcells = c01.message_cells()
    q = tier == 'quick'
    shards = []
    for i in range(8 if q else 24):
        shards.append({'kind': 'segment', 'cells': cells[i::(8 if q else 24)], 'seed': seed * 1000 + i, 'n': 400 if q else 2500, 'shrink': not q})
    for i in range(4 if q else 12):
        shards.append({'kind': 'message', 'cells': mcells[i::(4 if q else 12)], 'seed': seed * 1000 + 100 + i, 'n': 100 if q else 700, 'shrink': not q})
    for i in range(4 if q else 12):
        shards.append({'kind': 'history', 'versions': T.VERSIONS, 'seed': seed * 1000 + 200 + i, 'n': 200 if q else 1500, 'shrink': not q})
    shards.append({'kind': 'lengths'})
    shards.append({'kind': 'dups'})
    for i in range(1 if q else 8):
        shards.append({'kind': 'ctor', 'seed': seed * 10 + i})
    for i in range(2 if q else 8):
        shards.append({'kind': 'override', 'cells': cells[i::(2 if q else 8)], 'seed': seed * 1000 + 300 + i, 'n': 300 if q else 3000, 'shrink': not q})
    return shards
