"""C07 - a message's encoding characters govern its entire encoding."""
from hypothesis import strategies as st

from hv import tables as T
from hv import refmodel as R
from hv import strategies as S
from hv.common import hyp_collect, h

ID = 'C07'
LEVEL = 'exploration'
EXHAUSTIVE = {}
RULE = ('Hypothesis: version x drawn delimiter set (5 keys; v>=2.7 with or without TRUNCATION) x a content model {segment -> '
        'field -> repetitions -> components -> sub-components} over the direct segments of a sampled message structure, leaves '
        'containing characters of *other* delimiter sets; the message is built through Message(name, version, encoding_chars) + '
        'traversal / add_* and compared with a reference encoding of the model; MSH-1/MSH-2 spelling, encoding_chars read-back on '
        'the message and every descendant, to_mllp framing and parse_message(to_er7()) recovery are checked; plus invalid sets '
        '(each required key missing, each pair of equal characters incl. TRUNCATION, non-mapping) through Message(), '
        'set_default_encoding_chars, parse_* and as text. Non-trivial = non-default set and a model with a repetition, a component '
        'and a sub-component; distinct by (version, set, model hash).')
ASSUMPTIONS = [
    'delimiter sets at message level exclude "." and "_" (MSH-12 and the structure id must stay unsplit)',
    'leaves start with a letter that no numeric/date parser accepts, so that TOLERANT keeps them verbatim',
    'TRUNCATION is only supplied for versions >= 2.7 (earlier versions define no such character)',
]
TECHNIQUE = 'Hypothesis generation of delimiter sets and content models; reference-encoder equality, read-back and parse round-trip oracles; enumerated invalid sets'
LEVEL_TEXT = 'exploration: sampled delimiter sets x versions x content models, enumerated invalid-set matrix'
LEVEL_NOTE = 'trusted: reference encoder (hv/refmodel.py); the model only populates direct segment children of the structure'

TOL = 2
KEYS = ('FIELD', 'COMPONENT', 'SUBCOMPONENT', 'REPETITION', 'ESCAPE')


def _direct_segments(v, m):
    out = []
    for name, r, card, kind in T.struct_children(T.message_ref(v, m)):
        if kind == 'SEG' and name != 'MSH' and name not in T.PSEUDO_SEGMENTS and not T.segment_defect(v, name) \
                and name not in [o for o in out]:
            out.append(name)
    return out


def message_cells():
    cells = []
    for v in T.VERSIONS:
        for m in T.messages(v):
            try:
                if '_' in m and len(_direct_segments(v, m)) >= 2 and T.struct_children(T.message_ref(v, m))[0][0] == 'MSH':
                    cells.append((v, m))
            except Exception:
                pass
    return cells


@st.composite
def leaf(draw, ec):
    act = S.active_chars(ec)
    alpha = [c for c in (S.WORD + S.PUNCT + ' ') if c not in act]
    body = draw(st.text(alphabet=st.sampled_from(alpha), max_size=5)).rstrip(' ')
    return draw(st.sampled_from('xqzXQZ')) + body


@st.composite
def field_model(draw, v, ref, ec):
    """list of repetitions; repetition = list of components; component = list of sub-component leaves ('' = empty)"""
    ch = T.ref_children(v, ref)
    nrep = draw(st.sampled_from([1, 1, 2, 3]))
    reps = []
    for _ in range(nrep):
        if not ch:
            reps.append([[draw(leaf(ec))]])
            continue
        idx = draw(S._sparse(len(ch)))
        comps = [[] for _ in range(idx[-1] + 1)]
        for i in idx:
            sub = T.ref_children(v, ch[i][2])
            if not sub:
                comps[i] = [draw(leaf(ec))]
            else:
                sidx = draw(S._sparse(len(sub)))
                comps[i] = [''] * (sidx[-1] + 1)
                for k in sidx:
                    comps[i][k] = draw(leaf(ec))
        reps.append(comps)
    return reps


@st.composite
def cases(draw, cells):
    v, m = draw(st.sampled_from(cells))
    ec = draw(S.delimiter_sets(v, message_level=True, default_weight=1))
    segs = _direct_segments(v, m)
    chosen = [s for s in segs if draw(st.integers(0, 9)) < 3][:3] or [segs[0]]
    model = []
    for s in chosen:
        rows = T.seg_fields(v, s)
        picks = sorted(set(draw(st.lists(st.integers(0, len(rows) - 1), min_size=1, max_size=3))))
        fields = []
        for r in picks:
            fname, i, ref, card = rows[r]
            fields.append([fname, i, draw(field_model(v, ref, ec))])
        model.append([s, fields])
    # segments outside the declared structure: a Z segment and a real segment foreign to this message
    if draw(st.integers(0, 2)) == 0:
        zf = [['ZXX_%d' % i, i, [[[draw(leaf(ec))]]]] for i in sorted(set(draw(st.lists(st.integers(1, 4), min_size=1, max_size=2))))]
        model.insert(draw(st.integers(0, len(model))), ['ZXX', zf])
    if draw(st.integers(0, 3)) == 0:
        inside = set(T.name_places(T.message_ref(v, m)))
        foreign = [s for s in T.segments(v) if s not in inside and s != 'MSH']
        if foreign:
            s = draw(st.sampled_from(foreign))
            rows = T.seg_fields(v, s)
            fname, i, ref, card = rows[draw(st.integers(0, len(rows) - 1))]
            model.insert(draw(st.integers(0, len(model))), [s, [[fname, i, draw(field_model(v, ref, ec))]]])
    mshf = []
    for (fname, i, ref, card) in T.seg_fields(v, 'MSH'):
        if i in (3, 4, 5, 6) and draw(st.booleans()):
            mshf.append([fname, i, draw(field_model(v, ref, ec))[:1]])
    # MSH-12 with its second component (internationalisation code), where the version defines MSH-12 as a composite
    row12 = [r for r in T.seg_fields(v, 'MSH') if r[1] == 12]
    msh12 = draw(st.sampled_from([None, None, 'USA', 'CAN'])) if row12 and T.ref_children(v, row12[0][2]) else None
    return {'v': v, 'm': m, 'ec': {k: ec[k] for k in ec if k not in ('SEGMENT', 'GROUP')}, 'model': model, 'msh': mshf,
            'how': draw(st.integers(0, 4)), 'msh12': msh12}


def _enc_field(reps, ec):
    return R.enc_field([[c if len(c) != 1 else c[0] for c in comps] if comps else [] for comps in reps], ec) \
        if False else ec['REPETITION'].join(
            ec['COMPONENT'].join(R.trim([ec['SUBCOMPONENT'].join(R.trim(c, '')) for c in comps], '')) for comps in reps)


def expected_text(case):
    v, m = case['v'], case['m']
    ec = R.full(case['ec'])
    f = {9: S.msh9_text(v, m, ec), 7: '20200101', 12: v + (ec['COMPONENT'] + case['msh12'] if case.get('msh12') else '')}
    for fname, i, reps in case['msh']:
        f[i] = _enc_field(reps, ec)
    vals = [f.get(i, '') for i in range(3, max(f) + 1)]
    lines = ['MSH' + ec['FIELD'] + R.msh2(ec) + ec['FIELD'] + ec['FIELD'].join(R.trim(vals, ''))]
    for s, fields in case['model']:
        lines.append(R.enc_segment(s, {i: _enc_field(reps, ec) for fname, i, reps in fields}, ec))
    return '\r'.join(lines)


_TEXTUAL = ('ST', 'TX', 'FT', 'ID', 'IS')


def _leaf(el, text, v, dt, detached):
    """leaf content; on a parent-less element a string would be split with the default delimiters (documented), so a text
    holding one of them goes in as a datatype object there"""
    if detached and any(c in text for c in '|^~\\&'):
        if dt not in _TEXTUAL:
            raise _NeedAttached()
        el.value = T.lib(v).get_base_datatypes()[dt](text)
    else:
        el.value = text


def _populate_field(f, v, ref, comps, how, detached=False):
    """fill Field f (already attached) from a component model"""
    ch = T.ref_children(v, ref)
    if not ch:
        _leaf(f, comps[0][0], v, T.ref_dt(ref), detached)
        return
    for j, subs in enumerate(comps):
        if not subs:
            continue
        cname, _, cref, _ = ch[j]
        sub = T.ref_children(v, cref)
        if how == 3:
            # the whole component assigned as ER7 text: it is split with the message's sub-component separator
            ec = f.encoding_chars
            setattr(f, cname, ec['SUBCOMPONENT'].join(R.trim(subs, '')))
            continue
        c = f.add_component(cname)
        if not sub:
            _leaf(c, subs[0], v, T.ref_dt(cref), detached)
        else:
            for k, leafv in enumerate(subs):
                if leafv != '':
                    if how == 0:
                        _leaf(c.add_subcomponent(sub[k][0]), leafv, v, T.ref_dt(sub[k][2]), detached)
                    else:
                        setattr(c, sub[k][0], leafv)


class _NeedAttached(Exception):
    pass


def _fill_segment(seg, s, fields, v, ec, how, det):
    srows = {r[0]: r for r in T.seg_fields(v, s)} if not s.startswith('Z') else {}
    for fname, i, reps in fields:
        ref = srows[fname][2] if fname in srows else ('leaf', None, 'ST', None, None, -1)
        for n, comps in enumerate(reps):
            if how == 2 and n == 0:
                setattr(seg, fname, _enc_field([comps], ec))
            else:
                f = seg.add_field(fname)
                _populate_field(f, v, ref, comps, 0 if det else how, det)


def build(case):
    from hl7apy.core import Message
    v, m, how = case['v'], case['m'], case['how']
    ecin = dict(case['ec'])
    msg = Message(m, version=v, validation_level=TOL, encoding_chars=ecin)
    ec = R.full(case['ec'])
    msg.msh.msh_7 = '20200101'
    msg.msh.msh_9 = S.msh9_text(v, m, ec)
    if case.get('msh12'):
        msg.msh.msh_12 = v + ec['COMPONENT'] + case['msh12']
    rows = {r[0]: r for r in T.seg_fields(v, 'MSH')}
    for fname, i, reps in case['msh']:
        setattr(msg.msh, fname, _enc_field(reps, ec))          # string assignment: parsed with the message's set
    for s, fields in case['model']:
        det = how == 4 and not s.startswith('Z')
        if det:
            # the segment is built on its own, through element calls only (a string assigned to a parent-less element would
            # be split with the default delimiters), and attached afterwards
            from hl7apy.core import Segment
            seg = Segment(s, version=v, validation_level=TOL)
            try:
                _fill_segment(seg, s, fields, v, ec, how, True)
            except _NeedAttached:
                det = False
            else:
                # touch a few descendants before attaching (whatever they remember must not survive the move)
                for c in list(seg.children)[:2]:
                    c.encoding_chars, c.to_er7()
                msg.add(seg)
        if not det:
            _fill_segment(msg.add_segment(s), s, fields, v, ec, how, False)
    return msg


def walk(el):
    yield el
    if type(el).__name__ != 'SubComponent':
        for c in el.children:
            for x in walk(c):
                yield x


def check_model(case):
    from hl7apy import parser as P
    from hl7apy.consts import MLLP_ENCODING_CHARS as ME
    out = []
    v = case['v']
    ec = R.full(case['ec'])
    try:
        msg = build(case)
        text = msg.to_er7()
    except Exception as e:
        return [('C07-build-raises:%s' % type(e).__name__, str(e)[:300])]
    exp = expected_text(case)
    if text != exp:
        out.append(('C07-encoding-differs-from-reference', 'got      %r\nexpected %r' % (text, exp)))
    if text[3:4] != ec['FIELD'] or not text[4:].startswith(R.msh2(ec) + ec['FIELD']):
        out.append(('C07-MSH-1-2-spelling', '%r does not start with MSH %r %r' % (text[:16], ec['FIELD'], R.msh2(ec))))
    want = dict(ec)
    got = msg.encoding_chars
    if got != want:
        out.append(('C07-encoding_chars-readback', 'message.encoding_chars == %r, expected %r' % (got, want)))
    for el in walk(msg):
        if el is not msg and el.encoding_chars != want:
            out.append(('C07-descendant-encoding_chars', '%r.encoding_chars == %r' % (el, el.encoding_chars)))
            break
    if msg.to_mllp() != ME.SB + text + ME.CR + ME.EB + ME.CR or ME.SB != '\x0b' or ME.EB != '\x1c' or ME.CR != '\r':
        out.append(('C07-mllp-framing', repr(msg.to_mllp())[:200]))
    for fg in (True, False):
        try:
            p = P.parse_message(text, validation_level=TOL, find_groups=fg)
            if p.encoding_chars != got:
                out.append(('C07-parse-recovers-different-set', 'find_groups=%s: %r vs %r' % (fg, p.encoding_chars, got)))
            back = p.to_er7()
            if back != text:
                out.append(('C07-parse-roundtrip-differs', 'find_groups=%s\nfirst  %r\nsecond %r' % (fg, text, back)))
            for el in walk(p):
                if el is not p and el.encoding_chars != got:
                    out.append(('C07-descendant-encoding_chars', 'parsed %r.encoding_chars == %r' % (el, el.encoding_chars)))
                    break
        except Exception as e:
            out.append(('C07-parse-raises:%s' % type(e).__name__, 'find_groups=%s %r: %s' % (fg, text, str(e)[:200])))
    return out


# ---------------------------------------------------------------------------------------------
# invalid sets

def invalid_sets(v):
    base = {'FIELD': '!', 'COMPONENT': '$', 'SUBCOMPONENT': '%', 'REPETITION': '*', 'ESCAPE': '@'}
    out = []
    for k in KEYS:
        d = dict(base)
        del d[k]
        out.append(('missing-' + k, d))
    keys = list(KEYS) + (['TRUNCATION'] if T.vkey(v) >= [2, 7] else [])
    full = dict(base, TRUNCATION='?') if T.vkey(v) >= [2, 7] else dict(base)
    for a in range(len(keys)):
        for b in range(a + 1, len(keys)):
            d = dict(full)
            d[keys[b]] = d[keys[a]]
            out.append(('duplicate-%s-%s' % (keys[a], keys[b]), d))
    # a character that is missing although its key is there: empty, None, two characters
    for k in keys:
        for label, val in (('empty', ''), ('none', None), ('two-characters', '<>')):
            d = dict(full)
            d[k] = val
            out.append(('no-character-%s-%s' % (label, k), d))
    out.append(('not-a-mapping-str', '!$*@%'))
    out.append(('not-a-mapping-list', ['!', '$', '*', '@', '%']))
    out.append(('not-a-mapping-none-like', 0))
    return out


def check_invalid(v, label, bad):
    import hl7apy
    from hl7apy.core import Message
    from hl7apy import parser as P
    from hl7apy.exceptions import InvalidEncodingChars
    out = []

    def expect(name, fn):
        try:
            fn()
            out.append(('C07-invalid-set-accepted:%s:%s' % (name, label.split('-')[0]), '%s with %s %r' % (name, label, bad)))
        except InvalidEncodingChars:
            pass
        except Exception as e:
            out.append(('C07-invalid-set-wrong-exception:%s:%s:%s' % (name, label.split('-')[0], type(e).__name__),
                        '%s with %s %r: %s' % (name, label, bad, e)))
    expect('Message', lambda: Message('ADT_A01', version=v, validation_level=TOL, encoding_chars=bad))
    expect('parse_segment', lambda: P.parse_segment('PID|1', version=v, encoding_chars=bad))
    expect('parse_field', lambda: P.parse_field('A', name='PID_1', version=v, encoding_chars=bad))
    expect('parse_component', lambda: P.parse_component('A', name='CX_1', datatype='ST', version=v, encoding_chars=bad)
           if False else P.parse_components('A', 'ST', v, bad))
    saved = hl7apy.get_default_encoding_chars()
    try:
        expect('set_default_encoding_chars', lambda: hl7apy.set_default_encoding_chars(
            dict(bad) if isinstance(bad, dict) else bad))
    finally:
        hl7apy._DEFAULT_ENCODING_CHARS = saved
    if hl7apy.get_default_encoding_chars() != saved:
        out.append(('C07-harness-default-not-restored', ''))
    return out


def invalid_texts(v):
    """MSH lines whose MSH-1/MSH-2 do not form a valid set"""
    tail = '|A|B|C|D|20200101||ADT^A01^ADT_A01|1|P|%s' % v
    out = [('dup-in-msh2', 'MSH|^^\\&' + tail), ('dup-in-msh2-b', 'MSH|^~\\^' + tail), ('three-chars', 'MSH|^~\\' + tail),
           ('empty-msh2', 'MSH|' + tail), ('six-chars', 'MSH|^~\\&#!' + tail)]
    if T.vkey(v) < [2, 7]:
        out.append(('five-chars-before-2.7', 'MSH|^~\\&#' + tail))
    else:
        out.append(('dup-with-truncation', 'MSH|^~\\&^' + tail))
    return out


def check_invalid_text(v, label, text):
    from hl7apy import parser as P
    from hl7apy.exceptions import InvalidEncodingChars
    out = []
    for name, fn in (('parse_message', lambda: P.parse_message(text, validation_level=TOL)),
                     ('get_message_type', lambda: P.get_message_type(text))):
        try:
            fn()
            out.append(('C07-invalid-text-set-accepted:%s:%s' % (name, label), repr(text[:40])))
        except InvalidEncodingChars:
            pass
        except Exception as e:
            out.append(('C07-invalid-text-set-wrong-exception:%s:%s:%s' % (name, label, type(e).__name__),
                        '%r: %s' % (text[:40], e)))
    return out


# ---------------------------------------------------------------------------------------------

# ---------------------------------------------------------------------------------------------
# copies between messages whose encoding characters differ (or agree on a custom set), and group text

WORDS = ('a', 'B7', 'xy', 'Q', 'n1', 'Zed', '42', 'kLm')


@st.composite
def copy_cases(draw, cells):
    v, m = draw(st.sampled_from(cells))
    ec1 = draw(S.delimiter_sets(v, message_level=True, default_weight=3))
    ec2 = draw(st.one_of(st.just(ec1), S.delimiter_sets(v, message_level=True, default_weight=2)))
    for e in (ec1, ec2):
        if T.vkey(v) < [2, 7]:
            e.pop('TRUNCATION', None)
    words = st.sampled_from(WORDS)       # plain in every delimiter set: the copy must carry the STRUCTURE over
    return {'kind': 'copy', 'v': v, 'm': m, 'ec1': {k: ec1[k] for k in ec1 if k not in ('SEGMENT', 'GROUP')},
            'ec2': {k: ec2[k] for k in ec2 if k not in ('SEGMENT', 'GROUP')},
            'comps': draw(st.lists(st.lists(words, min_size=1, max_size=3), min_size=1, max_size=3)),
            'reps': draw(st.integers(1, 2)), 'how': draw(st.sampled_from(['segment', 'field', 'group', 'group-text']))}


def _first_group_with_pid(v, m):
    """a top-level group of the structure whose first child is a segment with a complex field (name, segment, field name, components)"""
    for (n, r, card, kind) in T.struct_children(T.message_ref(v, m)):
        if kind != 'GRP':
            continue
        kids = T.struct_children(r)
        if kids and kids[0][3] == 'SEG' and kids[0][0] in T.lib(v).SEGMENTS and not T.segment_defect(v, kids[0][0]):
            for row in T.seg_fields(v, kids[0][0]):
                ch = T.ref_children(v, row[2])
                if ch and row[3][1] != 0 and len(ch) >= 3 and all(T.ref_children(v, c[2]) for c in ch[:1]) is not None:
                    return n, kids[0][0], row, ch
    return None


def check_copy(case):
    from hl7apy.core import Message
    v, m, how = case['v'], case['m'], case['how']
    ec1, ec2 = R.full(case['ec1']), R.full(case['ec2'])
    found = _first_group_with_pid(v, m)
    if found is None:
        case['_skipped'] = True
        return []
    gname, sname, (fname, i, fref, fcard), ch = found
    comps = case['comps'][:len(ch)]

    def words_of(j, c):
        sub = T.ref_children(v, ch[j][2])
        return c[:len(sub)] if (sub and len(sub) > 1) else c[:1]

    def model_line(ec):
        # every component holds plain words: one per sub-component where the component's datatype has several, else one
        return R.enc_segment(sname, {i: ec['COMPONENT'].join(ec['SUBCOMPONENT'].join(words_of(j, c)) for j, c in enumerate(comps))}, ec)
    try:
        donor = Message(m, version=v, validation_level=TOL, encoding_chars=dict(case['ec1']))
        g = donor.add_group(gname)
        seg = g.add_segment(sname)
        f = seg.add_field(fname)
        for j, c in enumerate(comps):
            comp = f.add_component(ch[j][0])
            sub = T.ref_children(v, ch[j][2])
            if sub and len(sub) > 1:
                for k, w in enumerate(c[:len(sub)]):
                    comp.add_subcomponent(sub[k][0]).value = w
            else:
                comp.value = c[0]
        if donor.to_er7().split('\r')[-1] != model_line(ec1):
            return [('C07-copy-setup-differs', '%r vs %r' % (donor.to_er7().split('\r')[-1], model_line(ec1)))]
        dest = Message(m, version=v, validation_level=TOL, encoding_chars=dict(case['ec2']))
        if how == 'group':
            setattr(dest, gname, getattr(donor, gname))
        elif how == 'group-text':
            setattr(dest, gname, model_line(ec2))
        elif how == 'segment':
            setattr(dest.add_group(gname), sname, getattr(g, sname))
        else:
            setattr(dest.add_group(gname).add_segment(sname), fname, getattr(seg, fname))
        got = dest.to_er7().split('\r')[-1]
        if got != model_line(ec2):
            return [('C07-copy-between-messages:%s:%s' % (how, 'same-set' if case['ec1'] == case['ec2'] else 'other-set'),
                     '%s %s %s.%s %r -> %r: destination encodes %r, expected %r' % (v, m, gname, sname, case['ec1'], case['ec2'], got, model_line(ec2)))]
        if donor.to_er7().split('\r')[-1] != model_line(ec1):
            return [('C07-copy-changed-the-source', repr(donor.to_er7().split('\r')[-1]))]
    except Exception as e:
        return [('C07-copy-raises:%s:%s' % (how, type(e).__name__), '%s %s: %s' % (v, m, e))]
    return []


def check(case, acc=None):
    if case.get('kind') == 'copy':
        return check_copy(case)
    if case.get('kind') == 'invalid':
        return check_invalid(case['v'], case['label'], case['bad'])
    if case.get('kind') == 'invalid-text':
        return check_invalid_text(case['v'], case['label'], case['text'])
    return check_model(case)


def replay(case, acc):
    return check(case)


def _shape_flags(case):
    rep = comp = sub = False
    for s, fields in case['model']:
        for fname, i, reps in fields:
            rep = rep or len(reps) > 1
            for comps in reps:
                comp = comp or len(comps) > 1
                sub = sub or any(len(c) > 1 for c in comps)
    return rep, comp, sub


def _run(case, acc):
    v = case['v']
    ec = R.full(case['ec'])
    d = S.default_ec(v)
    nondefault = any(ec.get(k) != d.get(k) for k in KEYS) or ('TRUNCATION' in ec) != ('TRUNCATION' in d) or \
        ec.get('TRUNCATION') != d.get('TRUNCATION')
    rep, comp, sub = _shape_flags(case)
    acc.case(h(case), nondefault and rep and comp and sub, sample=case,
             label='model:%s' % ('6-key' if 'TRUNCATION' in ec else '5-key'))
    if nondefault:
        acc.label('non-default-set')
    return check_model(case)


def run_shard(shard, acc):
    if shard['kind'] == 'invalid':
        for v in shard['versions']:
            for label, bad in invalid_sets(v):
                case = {'kind': 'invalid', 'v': v, 'label': label, 'bad': bad}
                for sig, detail in check(case):
                    acc.violation(sig, case, detail)
                acc.case(None, True, sample=case if label.startswith('dup') else None, label='invalid-set', enumerated=True)
            for label, text in invalid_texts(v):
                case = {'kind': 'invalid-text', 'v': v, 'label': label, 'text': text}
                for sig, detail in check(case):
                    acc.violation(sig, case, detail)
                acc.case(None, True, label='invalid-set-as-text', enumerated=True)
        return
    if shard['kind'] == 'copy':
        def run(case, acc):
            vs = check_copy(case)
            acc.case(h([case[k] for k in ('v', 'm', 'ec1', 'ec2', 'comps', 'how')]), not case.pop('_skipped', False) and case['ec1'] != case['ec2'],
                     sample=case, label='copy:' + case['how'])
            return vs
        hyp_collect(acc, copy_cases([tuple(c) for c in shard['cells']]), run, shard['seed'], shard['n'], shard['shrink'])
        return
    hyp_collect(acc, cases([tuple(c) for c in shard['cells']]), _run, shard['seed'], shard['n'], shard['shrink'])


def plan(tier, seed):
    cells = message_cells()
    shards = [{'kind': 'invalid', 'versions': T.VERSIONS}]
    n, k = (14, 150) if tier == 'quick' else (32, 800)
    for i in range(n):
        shards.append({'kind': 'model', 'cells': cells[i::n], 'seed': seed * 1000 + i, 'n': k, 'shrink': tier != 'quick'})
    for i in range(2 if tier == 'quick' else 8):
        shards.append({'kind': 'copy', 'cells': cells[i::(2 if tier == 'quick' else 8)], 'seed': seed * 1000 + 500 + i, 'n': 150 if tier == 'quick' else 1500,
                       'shrink': tier != 'quick'})
    return shards
