"""C06 - escaping is delimiter-safe and idempotent for every delimiter set."""
import re
import itertools

from hypothesis import strategies as st

from hv import tables as T
from hv import refmodel as R
from hv import strategies as S
from hv.common import hyp_collect, h

ID = 'C06'
LEVEL = 'exploration'
EXHAUSTIVE = {'quick': True, 'thorough': True}
RULE = ('(a) exhaustive enumeration of all strings up to length 5 (quick) / 6 (thorough) over the alphabet {every active '
        'delimiter, the escape character, the letters H N F S T R E L, one letter, one digit, blank} for the default '
        'delimiter sets of <2.7 (16 symbols) and >=2.7 (17 symbols, with truncation); (b) Hypothesis text up to length 60 '
        '(one in ten up to length 400) over the same kind of alphabet for drawn delimiter sets x every textual datatype class of every version; (c) the '
        'same values assigned through a datatype object inside a generated message (separator counts must not change) and '
        'read back through the parser; (d) coverage-guided campaigns (atheris) over (textual class of any version, one of four '
        'delimiter sets, arbitrary printable Unicode text up to 80 characters). Oracle: an independent left-to-right tokenizer must split enc(x) into ordinary '
        'characters and complete escape sequences (no active delimiter, no stray escape character); enc(enc(x)) == enc(x); '
        'parse(enc(x)).to_er7() == enc(x). Non-trivial = the input contains a delimiter or the escape character; distinct '
        'by (class family, delimiter set, string) - by construction for the enumerated part.')
ASSUMPTIONS = [
    '"already escaped" means a complete escape sequence of the standard: <esc>[HNFSTRE(L)]<esc>, hexadecimal <esc>Xdd..<esc>, local <esc>Z..<esc>, '
    'character set <esc>Cxxyy<esc> / <esc>Mxxyy[zz]<esc>, formatting commands <esc>.br<esc> <esc>.sp n<esc> <esc>.in+n<esc> ...',
    'no decode-and-compare round trip is asserted (the library has no unescape function)',
    'delimiter sets are 5-6 distinct punctuation characters',
]
TECHNIQUE = 'exhaustive bounded enumeration + Hypothesis text over delimiter-rich alphabets + coverage-guided fuzzing (atheris); tokenizer / idempotence / metamorphic separator-count oracles'
LEVEL_TEXT = ('exploration, exhaustive inside the stated bound: every string up to length 5/6 over a 16/17-symbol alphabet for '
              'the default sets, sampled beyond (length <= 60, drawn delimiter sets, every textual class of every version)')
LEVEL_NOTE = 'trusted: the 20-line reference tokenizer (hv/refmodel.py) and its regex twin used for speed; highlights are not exercised in the enumeration'


def _ok_pattern(ec, v=None):
    esc = re.escape(ec['ESCAPE'])
    letters = _letters_for(v, ec) if v else R.esc_letters(ec)
    bad = ''.join(re.escape(c) for c in S.active_chars(ec))
    others = R.other_sequences(ec['ESCAPE'])
    if others is None:
        return re.compile(r'(?:%s[%s]%s|[^%s])*\Z' % (esc, letters, esc, bad), re.S)
    return re.compile(r'(?:%s[%s]%s|%s%s%s|[^%s])*\Z' % (esc, letters, esc, esc, others.pattern, esc, bad), re.S)


def _letters_for(v, ec):
    # the class of version v recognises L only from 2.7 on, whatever the set says
    return 'HNFSTREL' if T.vkey(v) >= [2, 7] else 'HNFSTRE'


def check_string(cls, v, ec, x, pat=None, deep=True):
    """-> list of (sig, detail)"""
    out = []
    try:
        enc = cls(x).to_er7(ec)
    except Exception as e:
        return [('escape-raises:%s' % type(e).__name__, '%s(%r).to_er7: %s' % (cls.__name__, x, e))]
    pat = pat or _ok_pattern(ec, v)
    # the regex twin is only a fast path: it is trusted when it accepts and no delimiter could hide inside a formatting /
    # hexadecimal sequence; everything else goes through the reference tokenizer
    risky = any(c.isalnum() or c in '.+- ' for c in S.active_chars(ec) if c != ec['ESCAPE'])
    if risky or pat.match(enc) is None:
        toks, problems = R.tokenize_escaped(enc, ec, _letters_for(v, ec))
        if problems:
            kinds = sorted(set(p[0] for p in problems))
            out.append(('escape:' + kinds[0], '%s(%r) -> %r: %s' % (cls.__name__, x, enc, problems[:3])))
        elif not risky:
            out.append(('escape:tokenizer-disagrees', '%s(%r) -> %r' % (cls.__name__, x, enc)))
    if enc != x and not out and not R.tokenize_escaped(x, ec, _letters_for(v, ec))[1]:
        out.append(('escape:already-escaped-text-changed', '%s(%r) -> %r although the input consists of ordinary characters and complete escape sequences only' % (
            cls.__name__, x, enc)))
    try:
        enc2 = cls(enc).to_er7(ec)
    except Exception as e:
        return out + [('escape-raises:%s' % type(e).__name__, 're-encoding %r: %s' % (enc, e))]
    if enc2 != enc:
        out.append(('escape:not-idempotent', '%s(%r) -> %r -> %r' % (cls.__name__, x, enc, enc2)))
    if deep and not out and enc.strip():
        out.extend(check_parse_side(v, ec, enc))
    return out


def check_highlights(cls, v, ec, x, ranges):
    """highlight ranges add \\H\\ ... \\N\\ sequences: the encoding must still tokenize, and hold one H and one N per range"""
    try:
        enc = cls(x, highlights=[tuple(r) for r in ranges]).to_er7(ec)
    except Exception as e:
        from hl7apy.exceptions import InvalidHighlightRange
        if isinstance(e, InvalidHighlightRange):
            return []
        return [('escape-highlights-raise:%s' % type(e).__name__, '%s(%r, highlights=%r): %s' % (cls.__name__, x, ranges, e))]
    toks, problems = R.tokenize_escaped(enc, ec, _letters_for(v, ec))
    out = []
    if problems:
        out.append(('escape-highlights:' + problems[0][0], '%s(%r, highlights=%r) -> %r' % (cls.__name__, x, ranges, enc)))
    esc = ec['ESCAPE']
    base_toks, _ = R.tokenize_escaped(cls(x).to_er7(ec), ec, _letters_for(v, ec))
    nh = toks.count(esc + 'H' + esc) - base_toks.count(esc + 'H' + esc)      # left-to-right tokens, not substring counts
    nn = toks.count(esc + 'N' + esc) - base_toks.count(esc + 'N' + esc)
    if (nh, nn) != (len(ranges), len(ranges)):
        out.append(('escape-highlights:wrong-number-of-markers', '%s(%r, highlights=%r) -> %r' % (cls.__name__, x, ranges, enc)))
    return out


def check_parse_side(v, ec, enc):
    """text in the encoder's output language survives parse -> encode verbatim"""
    from hl7apy import parser as P
    out = []
    try:
        f = P.parse_field(enc, version=v, encoding_chars=ec, validation_level=2)
        back = f.to_er7(ec)
        if back != enc:
            out.append(('escape:parse-side-changed', 'parse_field(%r).to_er7() == %r' % (enc, back)))
        # a leaf of a numeric / date datatype holding such text falls back to a textual object under TOLERANT: same text
        from hl7apy.factories import datatype_factory
        from hv.props import c13
        for dt in ('NM', 'DT', 'SI'):
            if dt in T.lib(v).BASE_DATATYPES and c13.REF[dt](enc) == 'invalid':
                got = datatype_factory(dt, enc, v, 2).to_er7(ec)
                if got != enc:
                    out.append(('escape:tolerant-fallback-changed-text', 'datatype_factory(%r, %r, %s, TOLERANT).to_er7() == %r' % (dt, enc, v, got)))
                    break
        line = 'ZZZ' + ec['FIELD'] + enc + ec['FIELD'] + 'k'
        back = P.parse_segment(line, version=v, encoding_chars=ec, validation_level=2).to_er7(ec)
        if back != line:
            out.append(('escape:parse-side-changed', 'parse_segment(%r).to_er7() == %r' % (line, back)))
    except Exception as e:
        out.append(('escape-parse-raises:%s' % type(e).__name__, 'parsing %r: %s' % (enc, e)))
    return out


def st_chains(v):
    """names of an ST component and an ST sub-component reachable in PID of version v: (field, comp), (field, comp, sub)"""
    comp = sub = None
    for (fname, i, ref, card) in T.seg_fields(v, 'PID'):
        for (cname, j, cref, ccard) in (T.ref_children(v, ref) or ()):
            subs = T.ref_children(v, cref)
            if subs is None and cref[2] == 'ST' and comp is None and j > 1:
                comp = (fname, cname)
            for (sname, k, sref, scard) in (subs or ()):
                if sref[2] == 'ST' and sub is None and k > 1:
                    sub = (fname, cname, sname)
    return comp, sub


def check_in_message(v, ec_keys, dt, x):
    """assign ST(x) to fields, a component and a sub-component of a message: the separator counts must equal
    those obtained with the value 'v'"""
    from hl7apy.core import Message
    cls = T.lib(v).BASE_DATATYPES['ST']
    ec = {k: ec_keys[k] for k in ec_keys}
    comp, sub = st_chains(v)
    out = []
    try:
        def build(val, cls=cls):
            m = Message('ADT_A01', version=v, validation_level=2, encoding_chars=dict(ec))
            m.msh.msh_7 = '20200101'
            m.msh.msh_10 = cls(val)
            m.zzz.zzz_2 = cls(val)
            if comp:
                setattr(getattr(m.pid, comp[0]), comp[1], cls(val))
            if sub:
                setattr(getattr(getattr(m.pid, sub[0]), sub[1]), sub[2], cls(val))
            return m.to_er7()
        a, b = build(x), build('v')
        # the class of the same name that is not version specific (what `from hl7apy.base_datatypes import ST` gives):
        # an element of this version must encode its value like the version's own class does
        from hl7apy import base_datatypes as generic
        g = build(x, generic.ST)
        if g != a:
            out.append(('escape:generic-datatype-object-encoded-differently', 'value %r in a %s message: %r with hl7apy.base_datatypes.ST, %r with the '
                        'version\'s ST' % (x, v, g, a)))
        ecx = R.full(ec)
        if R.counts(a, ecx) != R.counts(b, ecx):
            out.append(('escape:separator-count-changed', 'value %r: counts %r vs %r\n%r' % (
                x, R.counts(a, ecx), R.counts(b, ecx), a)))
    except Exception as e:
        out.append(('escape-message-raises:%s' % type(e).__name__, 'value %r: %s' % (x, e)))
    return out


# ---------------------------------------------------------------------------------------------

def symbols(ec):
    return sorted(S.active_chars(ec)) + list('HNFSTREL') + ['a', '1', ' ']


def family_default(fam):
    if fam == 'pre27':
        return '2.5', R.full(R.DEFAULT_EC)
    return '2.7', R.full(R.DEFAULT_EC_27)


def run_enum(shard, acc):
    v, ec = family_default(shard['family'])
    cls = T.lib(v).BASE_DATATYPES['ST']
    sym = symbols(ec)
    act = S.active_chars(ec)
    pat = _ok_pattern(ec, v)
    maxlen = shard['maxlen']
    n = nt = 0

    def one(x):
        nonlocal n, nt
        n += 1
        if act.intersection(x):
            nt += 1
        # cheap path (no parse) for the bulk, full path on a stride
        vs = check_string(cls, v, ec, x, pat, deep=(n % 257 == 0))
        for sig, detail in vs:
            acc.violation(sig + ':' + shard['family'], {'kind': 'string', 'v': v, 'dt': 'ST', 'ec': None, 'x': x}, detail)

    if shard['short']:
        for L in range(0, 3):
            for t in itertools.product(sym, repeat=L):
                one(''.join(t))
    for pre in shard['prefixes']:
        for L in range(1, maxlen - 1):
            for t in itertools.product(sym, repeat=L):
                one(pre + ''.join(t))
    acc.evaluations += n
    acc.nontrivial_enum += nt
    acc.classes['enumerated:' + shard['family']] += n
    if shard['short']:
        acc.samples.extend([{'kind': 'string', 'family': shard['family'], 'x': x} for x in
                            ['|E\\', '\\F\\', 'a|b^c&d~e\\f', '\\H\\a\\N\\', '\\\\']])


@st.composite
def sampled_cases(draw, cells):
    v, dt = draw(st.sampled_from(cells))
    ec = draw(S.delimiter_sets(v, default_weight=2))
    if T.vkey(v) < [2, 7]:
        ec.pop('TRUNCATION', None)
    esc = ec['ESCAPE']
    act = sorted(S.active_chars(ec))
    letters = list('HNFSTREL')
    others = ['X0D0A', 'X41', 'X4', 'Z12', 'Zab', 'C2842', 'C284', 'M2842AB', 'M2842', '.br', '.sp 2', '.in+4', '.ti-1', '.fi', '.xx', 'Xfile']
    atoms = act + [esc] * 2 + letters + ['a', 'Z', '7', ' ', u'é'] + [esc + l + esc for l in letters] + [esc + l for l in 'FE'] + ['E' + esc] + \
        [esc + o + esc for o in others] + ['X', '.', 'b', 'r', '0', 'D']
    if draw(st.integers(0, 3)) == 0:
        atoms = [a for a in atoms if esc not in a]        # escape-free text: the cases that may carry highlight ranges
    if draw(st.integers(0, 9)) == 0:
        # a long value: dozens of escape characters, sequences and delimiters in one leaf
        parts = draw(st.lists(st.sampled_from(atoms), min_size=40, max_size=90))
        x = ''.join(parts)[:400]
    else:
        parts = draw(st.lists(st.sampled_from(atoms), min_size=1, max_size=20))
        x = ''.join(parts)[:60]
    hl = None
    if len(x) >= 4 and esc not in x and draw(st.integers(0, 2)) == 0:      # ranges index the raw text: kept off existing sequences
        a = draw(st.integers(0, len(x) - 3))
        b = draw(st.integers(a + 1, len(x) - 1))
        hl = [[a, b]]
        if b + 2 < len(x) - 1 and draw(st.booleans()):
            c = draw(st.integers(b + 1, len(x) - 2))
            hl.append([c, draw(st.integers(c + 1, len(x) - 1))])
    return {'kind': 'string', 'v': v, 'dt': dt, 'ec': {k: ec[k] for k in ec if k not in ('SEGMENT', 'GROUP')}, 'x': x, 'hl': hl}


@st.composite
def message_cases(draw, cells):
    c = draw(sampled_cases(cells))
    v = c['v']
    ec = draw(S.delimiter_sets(v, message_level=True, default_weight=4))
    if T.vkey(v) < [2, 7]:
        ec.pop('TRUNCATION', None)
    act = sorted(S.active_chars(ec))
    esc = ec['ESCAPE']
    atoms = act + [esc] + list('FSTREa1 ') + [esc + l + esc for l in 'FSTRE']
    x = ''.join(draw(st.lists(st.sampled_from(atoms), min_size=1, max_size=12)))
    c.update(kind='message', ec={k: ec[k] for k in ec if k not in ('SEGMENT', 'GROUP')}, x=x)
    return c


def check(case, acc=None):
    v, dt, x = case['v'], case['dt'], case['x']
    if case.get('ec'):
        ec = R.full(case['ec'])
    else:
        ec = S.default_ec(v)
    if case['kind'] == 'message':
        return check_in_message(v, case['ec'] or {k: ec[k] for k in ec if k not in ('SEGMENT', 'GROUP')}, dt, x)
    cls = T.lib(v).BASE_DATATYPES[dt]
    out = check_string(cls, v, ec, x)
    if case.get('hl') and not out:
        out = check_highlights(cls, v, ec, x, case['hl'])
    return out


FUZZ_SETS = [None, {'FIELD': '!', 'COMPONENT': '$', 'SUBCOMPONENT': '%', 'REPETITION': '*', 'ESCAPE': '@'},
             {'FIELD': '^', 'COMPONENT': '|', 'SUBCOMPONENT': '~', 'REPETITION': '&', 'ESCAPE': '/'},
             {'FIELD': '|', 'COMPONENT': '^', 'SUBCOMPONENT': '&', 'REPETITION': '~', 'ESCAPE': '?'},
             {'FIELD': '[', 'COMPONENT': ']', 'SUBCOMPONENT': '-', 'REPETITION': '.', 'ESCAPE': '\\'}]
_FUZZ_CELLS = []


def fuzz_decode(data):
    data = bytes(data)
    if not _FUZZ_CELLS:
        _FUZZ_CELLS.extend(textual_cells())
    v, dt = _FUZZ_CELLS[(data[0] if data else 0) % len(_FUZZ_CELLS)]
    ec = FUZZ_SETS[(data[1] if len(data) > 1 else 0) % len(FUZZ_SETS)]
    if ec is not None and T.vkey(v) >= [2, 7] and (data[1] & 64):
        ec = dict(ec, TRUNCATION='#')
    return {'kind': 'string', 'v': v, 'dt': dt, 'ec': ec, 'x': data[2:].decode('utf-8', 'ignore')[:80], 'hl': None}


def fuzz_encode(case):
    if not _FUZZ_CELLS:
        _FUZZ_CELLS.extend(textual_cells())
    base = {k: v for k, v in (case.get('ec') or {}).items() if k != 'TRUNCATION'}
    k = FUZZ_SETS.index(base) if base in FUZZ_SETS else 0
    return bytes([_FUZZ_CELLS.index((case['v'], case['dt'])) % 256, k]) + case['x'].encode('utf-8', 'ignore')


def fuzz_one(data):
    case = fuzz_decode(data)
    if any(ord(c) < 32 for c in case['x']):
        return [], False, case, 'fuzz:outside-domain'        # control characters (segment terminators among them) are no field content
    ec = R.full(case['ec']) if case.get('ec') else S.default_ec(case['v'])
    nt = len(S.active_chars(ec).intersection(case['x'])) >= 2
    return check(case), nt, case, 'fuzz:%s' % ('post27' if T.vkey(case['v']) >= [2, 7] else 'pre27')


def replay(case, acc):
    return check(case)


def _run(case, acc):
    ec = R.full(case['ec'])
    nt = bool(S.active_chars(ec).intersection(case['x']))
    acc.case(h([case['kind'], case['v'], case['dt'], case['ec'], case['x']]), nt, sample=case,
             label='%s:%s' % (case['kind'], 'post27' if T.vkey(case['v']) >= [2, 7] else 'pre27'))
    acc.extra['class:%s:%s' % (case['v'], case['dt'])] += 1
    if case.get('hl'):
        acc.label('with-highlights')
    return check(case)


def textual_cells():
    cells = []
    for v in T.VERSIONS:
        for dt, cls in sorted(T.textual_classes(v).items()):
            if dt == 'TN':
                continue        # TN constrains its value with a telephone-number pattern; covered by C13/C01
            cells.append((v, dt))
    return cells


def run_shard(shard, acc):
    if shard['kind'] == 'enum':
        return run_enum(shard, acc)
    if shard['kind'] == 'fuzz':
        from hv import common
        seeds = [fuzz_encode({'v': v, 'dt': 'ST', 'ec': None, 'x': x}) for v in ('2.5', '2.7') for x in
                 ['|E\\', '\\F\\', 'a|b^c&d~e\\f', '\\H\\a\\N\\', '\\\\', '\\X0D0A\\', '\\.br\\', '#', '\\L\\', 'abc']]
        toks = ['\\F\\', '\\S\\', '\\T\\', '\\R\\', '\\E\\', '\\L\\', '\\H\\', '\\N\\', '\\X41\\', '\\.sp\\', '\\', '|', '^', '~', '&', '#', '@', '@F@', '/E/', '!', '$', '%', '*']
        common.run_fuzz(acc, 'c06', seeds if shard['k'] % 4 else [], shard['seed'], shard['runs'], 90, check, fuzz_decode,
                        'coverage-guided', dictionary=toks, text_key='x')
        return
    cells = [tuple(c) for c in shard['cells']]
    if shard['kind'] == 'sampled':
        hyp_collect(acc, sampled_cases(cells), _run, shard['seed'], shard['n'], shard['shrink'])
    else:
        mc = [c for c in cells if c[1] == 'ST']
        hyp_collect(acc, message_cases(mc), _run, shard['seed'], shard['n'], shard['shrink'])
    n = len([k for k in acc.extra if k.startswith('class:')])
    for k in [k for k in acc.extra if k.startswith('class:')]:
        del acc.extra[k]
    acc.extra['textual_classes_reached_in_shard'] += n


def plan(tier, seed):
    shards = []
    maxlen = 6 if tier == 'thorough' else 5
    for fam in ('pre27', 'post27'):
        v, ec = family_default(fam)
        sym = symbols(ec)
        prefixes = [a + b for a in sym for b in sym]
        n = 24 if tier == 'thorough' else 8
        for k in range(n):
            shards.append({'kind': 'enum', 'family': fam, 'maxlen': maxlen, 'prefixes': prefixes[k::n], 'short': k == 0})
    cells = textual_cells()
    if tier == 'quick':
        for k in range(6):
            shards.append({'kind': 'sampled', 'cells': cells[k::6], 'seed': seed * 100 + k, 'n': 500, 'shrink': False})
        st_cells = [c for c in cells if c[1] == 'ST']
        for k in range(2):
            shards.append({'kind': 'message', 'cells': st_cells[k::2], 'seed': seed * 100 + 10 + k, 'n': 80, 'shrink': False})
    else:
        for k in range(16):
            shards.append({'kind': 'sampled', 'cells': cells[k::16], 'seed': seed * 1000 + k, 'n': 6000, 'shrink': True})
        st_cells = [c for c in cells if c[1] == 'ST']
        for k in range(8):
            shards.append({'kind': 'message', 'cells': st_cells[k::8], 'seed': seed * 1000 + 50 + k, 'n': 500, 'shrink': True})
    for k in range(2 if tier == 'quick' else 16):
        shards.append({'kind': 'fuzz', 'k': k + 1, 'seed': seed * 1000 + 700 + k, 'runs': 15000 if tier == 'quick' else 300000})
    return shards
