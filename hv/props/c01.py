"""C01 - parse -> encode is the identity on canonical ER7."""
from hypothesis import strategies as st

from hv import tables as T
from hv import refmodel as R
from hv import strategies as S
from hv import msggen as G
from hv.common import hyp_collect, Deadline, h

ID = 'C01'
LEVEL = 'exploration'
EXHAUSTIVE = {}
RULE = ('Hypothesis-generated canonical ER7 text built from the version tables (segment lines for every real segment '
        'of every version, single fields, single components, whole messages with find_groups off over arbitrary '
        'segment sequences, with find_groups on over generated structure instances, and over instances with Z-/foreign segments inserted inside groups); oracle: parse_X(text).to_er7() '
        '== text, differences located with an independent reference splitter. Non-trivial = the text contains a '
        'repetition, component or sub-component separator, an escape sequence or a non-default delimiter set; '
        'distinct by hash of (entry point, version, find_groups, text).')
ASSUMPTIONS = [
    'canonical = no edge blanks, no trailing empties at any level, NM/SI leaves in plain decimal form without '
    'leading zeros (or clearly non-numeric text), DT/TM/DTM leaves calendar-valid with years 1000-9999 (or clearly '
    'non-date text), positions within the table, no trailing CR, leaves never contain an active delimiter except '
    'inside complete single-letter escape sequences',
    'TOLERANT validation; parent-less elements are encoded with to_er7(encoding_chars) when a non-default set is used',
]
TECHNIQUE = 'Hypothesis table-driven generation of canonical ER7 + round-trip oracle (parse -> to_er7 == input)'
LEVEL_TEXT = ('exploration: generated canonical text for every (version, segment) cell and sampled fields, components '
              'and messages; round-trip identity checked on each; counts of cells reached are in the evidence')
LEVEL_NOTE = ('trusted: the harness definition of "canonical" (ASSUMPTIONS) and the reference splitter used only to '
              'describe a difference; sampling, not exhaustive over leaf text')

TOL = 2


def _is_default(v, ec):
    d = S.default_ec(v)
    return all(ec.get(k) == d.get(k) for k in set(ec) | set(d))


def _nontrivial(text, ec, v):
    body = text
    return (ec['REPETITION'] in body or ec['COMPONENT'] in body or ec['SUBCOMPONENT'] in body
            or ec['ESCAPE'] in body or not _is_default(v, ec))


def _classify(text, out, ec):
    try:
        a, b = R.leaves(text, ec), R.leaves(out, ec)
    except Exception:
        return 'unsplittable'
    if [x[0] for x in a] != [x[0] for x in b]:
        return 'segments-differ'
    if a != b:
        return 'leaves-differ'
    return 'separators-differ'


def check(case, acc=None):
    """case: {'level', 'v', 'text', 'ec' (dict or None = defaults), ...}"""
    from hl7apy import parser as P
    v, text, level = case['v'], case['text'], case['level']
    ec = case.get('ec')
    ecx = R.full(ec) if ec else S.default_ec(v)
    out = None
    try:
        if level == 'segment':
            out = P.parse_segment(text, version=v, encoding_chars=ec, validation_level=TOL).to_er7(ec)
        elif level == 'field':
            out = P.parse_field(text, name=case['name'], version=v, encoding_chars=ec,
                                validation_level=TOL).to_er7(ec)
        elif level == 'component':
            out = P.parse_component(text, name=case['name'], datatype=case['datatype'], version=v,
                                    encoding_chars=ec, validation_level=TOL).to_er7(ec)
        elif level == 'message':
            out = P.parse_message(text, validation_level=TOL, find_groups=case['find_groups']).to_er7()
        else:
            raise ValueError(level)
    except Exception as e:
        return [('C01-%s-raises:%s' % (level, type(e).__name__), '%s on canonical input %r: %s' % (
            type(e).__name__, text[:300], str(e)[:200]))]
    if out != text:
        kind = _classify(text, out, ecx) if level in ('segment', 'message') else 'text-differs'
        return [('C01-%s-roundtrip:%s' % (level, kind), 'input  %r\noutput %r' % (text[:600], out[:600]))]
    return []


def replay(case, acc):
    return check(case)


# ---------------------------------------------------------------------------------------------
# strategies producing cases

@st.composite
def seg_cases(draw, cells, custom_ec=True):
    v, s = draw(st.sampled_from(cells))
    if custom_ec and draw(st.integers(0, 3)) == 0:
        ec = draw(S.delimiter_sets(v, default_weight=0))
        send = ec
    else:
        ec = S.default_ec(v)
        send = None if draw(st.booleans()) else ec
    line = draw(S.segment_line(v, s, ec))
    return {'level': 'segment', 'v': v, 'seg': s, 'text': line, 'ec': send}


@st.composite
def field_cases(draw, cells):
    v, s = draw(st.sampled_from(cells))
    rows = T.seg_fields(v, s)
    name, i, ref, card = draw(st.sampled_from(rows))
    ref = T.lib(v).FIELDS.get(name, ref)      # a stand-alone Field(name) uses the FIELDS row
    if draw(st.integers(0, 3)) == 0:
        ec = draw(S.delimiter_sets(v, default_weight=0))
        send = ec
    else:
        ec = S.default_ec(v)
        send = None if draw(st.booleans()) else ec
    text = draw(S.repetition_text(v, ref, ec))
    return {'level': 'field', 'v': v, 'name': name, 'text': text, 'ec': send}


@st.composite
def component_cases(draw, versions):
    v = draw(st.sampled_from(versions))
    D = draw(st.sampled_from(T.complex_datatypes(v)))
    cname, j, cref, card = draw(st.sampled_from(T.dt_children(v, D)))
    if draw(st.integers(0, 3)) == 0:
        ec = draw(S.delimiter_sets(v, default_weight=0))
        send = ec
    else:
        ec = S.default_ec(v)
        send = None if draw(st.booleans()) else ec
    text = draw(S.component_text(v, cref, ec))
    return {'level': 'component', 'v': v, 'name': cname, 'datatype': cref[2], 'text': text, 'ec': send}


@st.composite
def flat_message_cases(draw, versions):
    """MSH + arbitrary segment lines of the version (in or out of the declared structure), any order; find_groups on or off"""
    v = draw(st.sampled_from(versions))
    ec = draw(S.delimiter_sets(v, message_level=True, default_weight=5))
    name = draw(st.sampled_from(T.messages(v)))
    lines = [draw(S.msh_line(v, name, ec))]
    segs = [s for s in T.segments(v) if s != 'MSH']
    for _ in range(draw(st.integers(0, 5))):
        lines.append(draw(S.segment_line(v, draw(st.sampled_from(segs)), ec)))
    return {'level': 'message', 'v': v, 'find_groups': draw(st.booleans()), 'text': '\r'.join(lines), 'ec': None,
            'mec': {k: ec[k] for k in ec if k not in ('SEGMENT', 'GROUP')}, 'arbitrary_order': True}


@st.composite
def grouped_message_cases(draw, cells):
    """MSH + an instance of the declared structure; find_groups on (and off: the same text)"""
    v, m = draw(st.sampled_from(cells))
    ec = draw(S.delimiter_sets(v, message_level=True, default_weight=6))
    inst = draw(G.instances(v, m, mode=draw(st.sampled_from(['required', 'random', 'random', 'repeat']))))
    lines = draw(G.instance_lines(v, m, inst, ec, conforming=False))
    return {'level': 'message', 'v': v, 'find_groups': draw(st.integers(0, 3)) > 0, 'text': '\r'.join(lines),
            'ec': None, 'mec': {k: ec[k] for k in ec if k not in ('SEGMENT', 'GROUP')}, 'structure': m}


@st.composite
def intruded_message_cases(draw, cells):
    """an instance of the declared structure with one to three lines that the structure does not list (a Z segment or a
    real segment of the version) inserted at arbitrary places - inside groups too; find_groups on or off"""
    base = draw(grouped_message_cases(cells))
    v = base['v']
    ec = R.full(base['mec'])
    lines = base['text'].split('\r')
    inside = set(T.name_places(T.message_ref(v, base['structure'])))
    foreign = [s for s in T.segments(v) if s not in inside and s != 'MSH']
    for _ in range(draw(st.integers(1, 3))):
        if foreign and draw(st.booleans()):
            line = draw(S.segment_line(v, draw(st.sampled_from(foreign)), ec, p_fill=2))
        else:
            line = R.enc_segment(draw(st.sampled_from(['ZXX', 'ZA1'])), {1: draw(S.textual_leaf(v, ec, 1)), 3: draw(S.textual_leaf(v, ec, 2))}, ec)
        lines.insert(draw(st.integers(1, len(lines))), line)
    base.update(text='\r'.join(lines), find_groups=draw(st.integers(0, 3)) > 0, arbitrary_order=True)
    return base


def _run(case, acc):
    v = case['v']
    ec = case.get('ec') or case.get('mec')
    ecx = R.full(ec) if ec else S.default_ec(v)
    nt = _nontrivial(case['text'], ecx, v)
    label = case['level'] + (':fg=%s%s' % (case['find_groups'], ':any-order' if case.get('arbitrary_order') else '') if case['level'] == 'message' else '')
    acc.case(h([case['level'], v, case.get('find_groups'), case['text'], case.get('ec') is not None]), nt,
             sample=case, label=label)
    if not _is_default(v, ecx):
        acc.label('non-default-delimiters')
    if ecx['ESCAPE'] in case['text'][8:]:
        acc.label('has-escape-sequence')
    if case['level'] == 'segment':
        acc.extra['cell:%s:%s' % (v, case['seg'])] += 1
    return check(case, acc)


def run_shard(shard, acc):
    kind, seed, n, shrink = shard['kind'], shard['seed'], shard['n'], shard['shrink']
    dl = Deadline(shard.get('budget'))
    if kind == 'segment-sweep':
        for cell in shard['cells']:
            hyp_collect(acc, seg_cases([tuple(cell)]), _run, seed, n, shrink, deadline=dl)
    elif kind == 'segment':
        hyp_collect(acc, seg_cases([tuple(c) for c in shard['cells']]), _run, seed, n, shrink, deadline=dl)
    elif kind == 'field':
        hyp_collect(acc, field_cases([tuple(c) for c in shard['cells']]), _run, seed, n, shrink, deadline=dl)
    elif kind == 'component':
        hyp_collect(acc, component_cases(shard['versions']), _run, seed, n, shrink, deadline=dl)
    elif kind == 'flat':
        hyp_collect(acc, flat_message_cases(shard['versions']), _run, seed, n, shrink, deadline=dl)
    elif kind == 'grouped':
        hyp_collect(acc, grouped_message_cases([tuple(c) for c in shard['cells']]), _run, seed, n, shrink, deadline=dl)
    elif kind == 'intruded':
        hyp_collect(acc, intruded_message_cases([tuple(c) for c in shard['cells']]), _run, seed, n, shrink, deadline=dl)
    # fold per-cell counters into one number to keep the evidence small
    cells = [k for k in acc.extra if k.startswith('cell:')]
    acc.extra['segment_cells_reached_in_shard'] += len(cells)
    for k in cells:
        del acc.extra[k]


def all_cells():
    return [(v, s) for v in T.VERSIONS for s in T.segments(v) if s != 'MSH']


def message_cells():
    return [(v, m) for v in T.VERSIONS for m in T.messages(v) if G.usable(v, m)]


def plan(tier, seed):
    cells = all_cells()
    mcells = message_cells()
    shards = []
    if tier == 'quick':
        for k in range(8):
            shards.append({'kind': 'segment', 'cells': cells[k::8], 'seed': seed * 100 + k, 'n': 600, 'shrink': False})
        for k in range(3):
            shards.append({'kind': 'field', 'cells': cells[k::3], 'seed': seed * 100 + 20 + k, 'n': 500, 'shrink': False})
        shards.append({'kind': 'component', 'versions': T.VERSIONS, 'seed': seed * 100 + 30, 'n': 400, 'shrink': False})
        for k in range(2):
            shards.append({'kind': 'flat', 'versions': T.VERSIONS, 'seed': seed * 100 + 40 + k, 'n': 150, 'shrink': False})
        for k in range(4):
            shards.append({'kind': 'grouped', 'cells': mcells[k::4], 'seed': seed * 100 + 50 + k, 'n': 120, 'shrink': False})
        for k in range(3):
            shards.append({'kind': 'intruded', 'cells': mcells[k::3], 'seed': seed * 100 + 60 + k, 'n': 120, 'shrink': False})
    else:
        n = 64
        for k in range(n):
            shards.append({'kind': 'segment-sweep', 'cells': cells[k::n], 'seed': seed * 1000 + k, 'n': 25,
                           'shrink': True, 'budget': 900})
        for k in range(16):
            shards.append({'kind': 'field', 'cells': cells[k::16], 'seed': seed * 1000 + 100 + k, 'n': 1500,
                           'shrink': True, 'budget': 900})
        for k in range(4):
            shards.append({'kind': 'component', 'versions': T.VERSIONS, 'seed': seed * 1000 + 200 + k, 'n': 1500,
                           'shrink': True, 'budget': 900})
        for k in range(8):
            shards.append({'kind': 'flat', 'versions': T.VERSIONS, 'seed': seed * 1000 + 300 + k, 'n': 400,
                           'shrink': True, 'budget': 900})
        for k in range(16):
            shards.append({'kind': 'grouped', 'cells': mcells[k::16], 'seed': seed * 1000 + 400 + k, 'n': 300,
                           'shrink': True, 'budget': 900})
        for k in range(8):
            shards.append({'kind': 'intruded', 'cells': mcells[k::8], 'seed': seed * 1000 + 500 + k, 'n': 300,
                           'shrink': True, 'budget': 900})
    return shards
