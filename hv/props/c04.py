"""C04 - validate() accepts conforming messages and pinpoints each structural defect; it is a pure observation."""
import io
import os
import tempfile

from hypothesis import strategies as st

from hv import tables as T
from hv import refmodel as R
from hv import strategies as S
from hv import msggen as G
from hv.common import hyp_collect, h

ID = 'C04'
LEVEL = 'exploration'
EXHAUSTIVE = {}
RULE = ('for message structures of every version (thorough: every usable structure name in all its versions, ascending then descending '
        'inside one process; quick: seeded sample) Hypothesis draws a conforming instance from the tables (group tree first; required '
        'children present, cardinalities respected, withdrawn positions empty, valid leaf literals), builds it through the API '
        '(add_group / add_segment / value, independent of the group finder) or - when every segment name occurs at one place - by '
        'parsing its text, and then applies at most one single-point mutation chosen among ALL applicable sites of the built message: '
        'remove one required child (segment, group, field, component, sub-component; also when it is the only child of its group), '
        'exceed one finite maximum by one (incl. withdrawn (0,0) positions), add a real segment the parent does not list, leave an '
        'unnamed field after the last defined one or an unnamed component. Oracle: conforming => no error; mutated => is_valid False '
        'and an error string naming the mutated child (for an unnamed element: its parent). On every case: encoding and child listing '
        'identical before/after; two calls give equal reports; is_valid == (errors == []); the raising form raises an exception equal '
        'in type and text to errors[0] (else returns True); a report file (StringIO and path) holds exactly the Error:/Warning: lines; '
        'parse_message(force_validation=True) raises iff the report has errors. Non-trivial = a conforming instance with a group or a '
        'complex field, or any mutated instance; distinct by (version, structure, instance hash, mutation site).')
ASSUMPTIONS = [
    'conformance is computed by the harness from the tables: (min, max) with -1 unbounded; children of an absent optional parent '
    'are not required; "varies" content unconstrained; table / length findings are warnings',
    'structures whose table requires two siblings of the same name are handled in a separate pass (see known finding V1)',
    'a second sibling of the same name and pseudo segments are never emitted; "choice" groups are read like the library reads them (as sequences)',
]
TECHNIQUE = 'Hypothesis table-driven conforming instances + single-point mutation at a drawn site; verdict / naming oracle and purity (snapshot) oracle'
LEVEL_TEXT = 'exploration: sampled instances and mutation sites per structure; all usable structures of all versions in the thorough tier'
LEVEL_NOTE = 'trusted: the harness reading of the structure tables (hv/tables.py, hv/msggen.py) and its conformance rules listed under assumptions'

TOL = 2
MUTATIONS = ('none', 'remove-required', 'exceed-max', 'foreign-segment', 'unknown-field', 'unknown-component', 'split-leaf')


def _exc(e):
    return '%s: %s' % (type(e).__name__, str(e)[:200])


# ---------------------------------------------------------------------------------------------
# building

def build_api(v, m, tree, lines, level=TOL, reference=None):
    from hl7apy.core import Message
    msg = Message(m, version=v, validation_level=level, reference=reference) if reference is not None else \
        Message(m, version=v, validation_level=level)
    it = iter(lines)

    def rec(parent, nodes):
        for node in nodes:
            if node['k'] == 'G':
                g = parent.add_group(node['n'])
                rec(g, node['c'])
            else:
                line = next(it)
                if node['n'] == 'MSH':
                    parent.msh.value = line
                else:
                    s = parent.add_segment(node['n'])
                    s.value = line
    rec(msg, tree)
    return msg


def listing(el):
    out = []
    if type(el).__name__ == 'SubComponent':
        return out
    for c in el.children.list:
        out.append((type(c).__name__, c.name))
        out.append(listing(c))
    return out


# ---------------------------------------------------------------------------------------------
# mutation sites, enumerated on the built message with the harness's own walk of the tables

def walk(v, el, ref, sites, depth=0):
    """collect (kind, parent element, row) sites below el whose structure reference is ref"""
    cls = type(el).__name__
    if cls in ('Message', 'Group'):
        rows = [(n, r, card, kind) for (n, r, card, kind) in T.struct_children(ref)]
        seen = set()
        sites.setdefault('foreign-segment', []).append((el, None))
        for (n, r, (mn, mx), kind) in rows:
            if n in seen or n in T.PSEUDO_SEGMENTS:
                continue
            seen.add(n)
            kids = [c for c in el.children.list if c.name == n]
            if mn >= 1 and len(kids) == mn:     # (MSH too: the message then encodes with the default delimiters)
                sites.setdefault('remove-required', []).append((el, n, kids[-1]))
            if mx != -1 and n != 'MSH' and (kind == 'SEG' and not T.segment_defect(v, n) and n in T.lib(v).SEGMENTS or kind == 'GRP'):
                sites.setdefault('exceed-max', []).append((el, n, mx - len(kids) + 1, kind))
            for c in kids:
                walk(v, c, r if kind == 'GRP' else T.lib(v).SEGMENTS[n] if r is None else r, sites, depth + 1)
    elif cls == 'Segment':
        rows = [(c[0], c[1], tuple(c[2])) for c in ref[1]]
        if rows and rows[-1][1][2] != 'varies' and not el.name.startswith('Z') and el.name != 'MSH':
            sites.setdefault('unknown-field', []).append((el, T.idx_of(rows[-1][0])))
        for (n, r, (mn, mx)) in rows:
            kids = [c for c in el.children.list if c.name == n]
            if mn >= 1 and len(kids) == mn:
                sites.setdefault('remove-required', []).append((el, n, kids[-1]))
            if el.name == 'MSH' and T.idx_of(n) in (1, 2):
                continue
            if mx != -1 and mx <= 3 and (kids or mx == 0):
                sites.setdefault('exceed-max', []).append((el, n, mx - len(kids) + 1, 'FIE'))
            for c in kids:
                walk(v, c, r, sites, depth + 1)
    elif cls in ('Field', 'Component'):
        ch = T.ref_children(v, ref)
        if not ch:
            par = el.parent
            if ref[2] and ref[2] != 'varies' and T.is_base(v, ref[2]) and len(el.children.list) == 1 and par is not None and \
                    len([c for c in par.children.list if c.name == el.name]) == 1 and not (par.name == 'MSH' and T.idx_of(el.name) in (1, 2)):
                # a populated leaf (field or component of a base datatype): it cannot hold a second component / sub-component
                sites.setdefault('split-leaf', []).append((el, cls))
            return
        if cls == 'Field' and len(el.children.list) > 0:
            sites.setdefault('unknown-component', []).append((el, None))
        for (n, i, r, (mn, mx)) in ch:
            kids = [c for c in el.children.list if c.name == n]
            if mn >= 1 and len(kids) == mn:
                sites.setdefault('remove-required', []).append((el, n, kids[-1]))
            if mx == 0 and cls == 'Field':
                sites.setdefault('exceed-max', []).append((el, n, 1, 'CMP'))
            if cls == 'Field':
                for c in kids:
                    walk(v, c, r, sites, depth + 1)


def apply_mutation(v, m, msg, kind, pick):
    """-> (description, needle that an error must contain) or None when the instance has no such site"""
    from hl7apy.core import Component
    sites = {}
    walk(v, msg, T.message_ref(v, m), sites)
    cand = sites.get(kind, [])
    if not cand:
        return None
    site = cand[pick % len(cand)]
    if kind == 'remove-required':
        parent, name, child = site
        parent.children.remove(child)
        return ('removed required %s from %r' % (name, parent), name, lambda: parent.add(child))
    if kind == 'exceed-max':
        parent, name, n, ck = site
        new = []
        for _ in range(n):
            if ck == 'SEG':
                new.append(parent.add_segment(name))
            elif ck == 'GRP':
                new.append(parent.add_group(name))
            elif ck == 'FIE':
                new.append(parent.add_field(name))
            else:
                new.append(parent.add_component(name))
        return ('added %d x %s to %r (beyond its maximum)' % (n, name, parent), name, lambda: [parent.children.remove(c) for c in new])
    if kind == 'foreign-segment':
        parent, _ = site
        declared = set(parent.ordered_children or ())
        foreign = [s for s in T.segments(v) if s not in declared and s != 'MSH']
        name = foreign[pick % len(foreign)]
        added = parent.add_segment(name)
        how = pick % 3
        def undo():
            if how == 0:
                parent.children.remove(added)
            elif how == 1:
                delattr(parent, name)
            else:
                # the foreign segment moves to a message of its own
                from hl7apy.core import Message
                Message(version=v, validation_level=TOL).add(added)
        return ('added foreign segment %s to %r' % (name, parent), name, undo)
    if kind == 'unknown-field':
        seg, last = site
        name, fields = R.split_segment(seg.to_er7(), R.DEFAULT_EC)
        have = max(fields) if fields else 0
        original = seg.to_er7()
        seg.value = original + '|' * (last - have + 1 + pick % 3) + 'zz'

        def undo():
            seg.value = original
        return ('unnamed field after the last defined one of %r' % seg, seg.name, undo)
    if kind == 'split-leaf':
        leaf, cls = site
        par, name = leaf.parent, leaf.name
        original = leaf.to_er7()
        setattr(par, name, original + ('^' if cls == 'Field' else '&') + 'zz')
        return ('second %s in the base-datatype %s %r' % ('component' if cls == 'Field' else 'sub-component', cls.lower(), leaf), name,
                lambda: setattr(par, name, original))
    if kind == 'unknown-component':
        field, _ = site
        c = Component(datatype='ST', version=v, validation_level=TOL)
        c.value = 'zz'
        field.add(c)
        return ('unnamed component in %r' % field, field.name, lambda: field.children.remove(c))
    raise ValueError(kind)


# ---------------------------------------------------------------------------------------------

def consistency(msg, v, text_for_force=None):
    """purity and report consistency; -> (violations, report)"""
    out = []
    try:
        before = (msg.to_er7(), listing(msg))
    except Exception as e:
        return [('C04-message-cannot-be-encoded:%s' % type(e).__name__, _exc(e))], None
    try:
        r1 = msg.validate(return_errors=True)
        r2 = msg.validate(return_errors=True)
    except Exception as e:
        return [('C04-validate-raises:%s' % type(e).__name__, _exc(e))], None
    after = (msg.to_er7(), listing(msg))
    if after != before:
        out.append(('C04-validate-changed-the-message', 'encoding %r -> %r' % (before[0][:200], after[0][:200]) if after[0] != before[0]
                    else 'child listing changed'))
    e1, w1 = [str(x) for x in r1.errors], [str(x) for x in r1.warnings]
    e2, w2 = [str(x) for x in r2.errors], [str(x) for x in r2.warnings]
    if (e1, w1) != (e2, w2):
        out.append(('C04-two-calls-differ', '%r vs %r' % (e1[:3], e2[:3])))
    if r1.is_valid != (len(r1.errors) == 0):
        out.append(('C04-is_valid-inconsistent', 'is_valid=%r with %d errors' % (r1.is_valid, len(r1.errors))))
    # raising form
    try:
        ret = msg.validate()
        if r1.errors:
            out.append(('C04-raising-form-did-not-raise', 'errors %r but validate() returned %r' % (e1[:2], ret)))
        elif ret is not True:
            out.append(('C04-raising-form-return-value', repr(ret)))
    except Exception as e:
        if not r1.errors:
            out.append(('C04-raising-form-raised-without-errors', _exc(e)))
        elif type(e) is not type(r1.errors[0]) or str(e) != e1[0]:
            out.append(('C04-raising-form-raises-another-error', 'raised %r, first reported error %r' % (str(e), e1[0])))
    # report files
    want = ''.join('Error: %s\n' % x for x in e1) + ''.join('Warning: %s\n' % x for x in w1)
    buf = io.StringIO()
    try:
        msg.validate(report_file=buf, return_errors=True)
        if buf.getvalue() != want:
            out.append(('C04-report-file-object-differs', '%r vs %r' % (buf.getvalue()[:300], want[:300])))
        fd, path = tempfile.mkstemp(prefix='hv-c04-', suffix='.txt', dir='/var/tmp')
        os.close(fd)
        try:
            # the path holds the report of an earlier validation, or does not exist yet
            stale = len(want) % 2 == 0
            if stale:
                with open(path, 'w') as f:
                    f.write('Error: line of an earlier report\nWarning: another one\n')
            else:
                os.remove(path)
            msg.validate(report_file=path, return_errors=True)
            got = open(path).read() if os.path.exists(path) else None
            if got != want:
                out.append(('C04-report-file-path-differs:%s' % ('path-held-an-earlier-report' if stale else 'new-path'),
                            '%r vs %r' % (got if got is None else got[:300], want[:300])))
        finally:
            if os.path.exists(path):
                os.remove(path)
    except Exception as e:
        out.append(('C04-report-file-raises:%s' % type(e).__name__, _exc(e)))
    if text_for_force is not None:
        from hl7apy import parser as P
        try:
            P.parse_message(text_for_force, validation_level=TOL, find_groups=True, force_validation=True)
            if r1.errors:
                out.append(('C04-force_validation-did-not-raise', e1[0]))
        except Exception as e:
            if not r1.errors:
                out.append(('C04-force_validation-raised-without-errors', _exc(e)))
    return out, r1


def check(case, acc=None):
    from hl7apy import parser as P
    v, m, tree, lines = case['v'], case['m'], case['tree'], case['lines']
    text = '\r'.join(lines)
    try:
        if case['route'] == 'text':
            msg = P.parse_message(text, validation_level=TOL, find_groups=True)
        else:
            msg = build_api(v, m, tree, lines)
    except Exception as e:
        return [('C04-build-raises:%s:%s' % (case['route'], type(e).__name__), '%s %s: %s' % (v, m, _exc(e)))]
    out = []
    kind = case['mutation']
    applied = None
    if kind != 'none':
        try:
            applied = apply_mutation(v, m, msg, kind, case['pick'])
        except Exception as e:
            return [('C04-mutation-raises:%s:%s' % (kind, type(e).__name__), '%s %s: %s' % (v, m, _exc(e)))]
        if applied is None:
            case['_applied'] = 'no-site'
    vs, rep = consistency(msg, v, text if (case['route'] == 'text' and applied is None) else None)
    out.extend(vs)
    if rep is not None:
        errs = [str(e) for e in rep.errors]
        if applied is None:
            if errs:
                out.append(('C04-conforming-instance-rejected:%s' % case['route'], '%s %s: %s\n%r' % (v, m, errs[:3], text[:500])))
        else:
            desc, needle, undo = applied
            case['_applied'] = kind
            if rep.is_valid or not errs:
                out.append(('C04-defect-not-reported:%s' % kind, '%s %s: %s -> validate() reports no error' % (v, m, desc)))
            elif not any(needle in e for e in errs):
                out.append(('C04-defect-not-named:%s' % kind, '%s %s: %s -> errors %r do not name %r' % (v, m, desc, errs[:4], needle)))
            if not out:
                # history: the defect is taken back through the API - the instance satisfies its structure again and must validate
                try:
                    undo()
                    errs2 = [str(e) for e in msg.validate(return_errors=True).errors]
                except Exception as e:
                    return out + [('C04-undo-raises:%s:%s' % (kind, type(e).__name__), '%s %s: %s, then undone: %s' % (v, m, desc, _exc(e)))]
                if errs2:
                    out.append(('C04-repaired-instance-rejected:%s' % kind, '%s %s: %s, then undone -> errors %r' % (v, m, desc, errs2[:3])))
    return out


def replay(case, acc):
    return check(case)


@st.composite
def cases(draw, cells):
    v, m = draw(st.sampled_from(cells))
    mode = draw(st.sampled_from(['required', 'random', 'random']))
    tree = draw(G.instances(v, m, mode=mode, unique=draw(st.booleans())))
    ec = S.default_ec(v, truncation=False)
    if T.vkey(v) >= [2, 7]:
        ec = R.full(R.DEFAULT_EC)
    lines = draw(G.instance_lines(v, m, tree, ec, conforming=True, p_opt=draw(st.sampled_from([0, 1, 2]))))
    eligible = G.eligible(v, m, tree)
    route = 'text' if (eligible and draw(st.booleans())) else 'api'
    mutation = draw(st.sampled_from(MUTATIONS + ('none', 'remove-required', 'exceed-max')))
    return {'v': v, 'm': m, 'tree': tree, 'lines': lines, 'route': route, 'mutation': mutation, 'pick': draw(st.integers(0, 400))}


def _has_complex(lines):
    return any('^' in l[8:] for l in lines)


def _run(case, acc):
    vs = check(case, acc)
    applied = case.pop('_applied', 'none')
    nt = applied not in ('none', 'no-site') or G.has_group(case['tree']) or _has_complex(case['lines'])
    small = dict(case, tree=G.shape(case['tree']))
    acc.case(h([case['v'], case['m'], case['lines'], case['mutation'], case['pick'], case['route']]), nt,
             sample=small if sum(len(l) for l in case['lines']) < 700 else None, label='%s:%s' % (case['route'], applied))
    acc.extra['struct:%s:%s' % (case['v'], case['m'])] += 1
    return vs


def dup_required_names(v, m):
    """structures whose table requires two siblings of the same name (ADT_A17-like)"""
    def rec(ref):
        seen = set()
        for (n, r, (mn, mx), kind) in T.struct_children(ref):
            if n in seen and mn >= 1:
                return True
            seen.add(n)
            if kind == 'GRP' and rec(r):
                return True
        return False
    try:
        return rec(T.message_ref(v, m))
    except Exception:
        return False


def check_dup_required(v, m):
    """both required same-name siblings present: the only way to satisfy the table; must validate"""
    from hl7apy.core import Message
    ref = T.message_ref(v, m)
    try:
        msg = Message(m, version=v, validation_level=TOL)
        msg.msh.msh_9 = S.msh9_text(v, m, R.DEFAULT_EC)
        msg.msh.msh_10, msg.msh.msh_11 = '1', 'P'

        def rec(parent, r):
            for (n, cr, (mn, mx), kind) in T.struct_children(r):
                if mn < 1 or n == 'MSH':
                    continue
                for _ in range(mn):
                    if kind == 'GRP':
                        rec(parent.add_group(n), cr)
                    elif n not in T.PSEUDO_SEGMENTS and not T.segment_defect(v, n):
                        parent.add_segment(n)
        rec(msg, ref)
        rep = msg.validate(return_errors=True)
    except Exception as e:
        return [('C04-dup-required-raises:%s' % type(e).__name__, '%s %s: %s' % (v, m, _exc(e)))]
    bad = [str(e) for e in rep.errors if 'Child limit exceeded' in str(e)]
    if bad:
        return [('C04-duplicate-required-sibling-cannot-validate', '%s %s: %s' % (v, m, bad[:2]))]
    return []


def dup_sibling_structures():
    """(version, structure) whose table lists one child name twice among the children of one parent"""
    out = []

    def rec(ref):
        seen = set()
        for (n, r, card, kind) in T.struct_children(ref):
            if n in seen:
                return True
            seen.add(n)
            if kind == 'GRP' and rec(r):
                return True
        return False
    for v in T.VERSIONS:
        for m in T.messages(v):
            try:
                if rec(T.message_ref(v, m)):
                    out.append((v, m))
            except Exception:
                pass
    return out


def check_dup_removal(v, m):
    """a name listed twice under one parent, required by at least one of its rows: with no child of that name at all the
    validator must report it, whichever of the rows carries the requirement"""
    from hl7apy.core import Message
    out = []
    try:
        msg = Message(m, version=v, validation_level=TOL)
        msg.msh.msh_9 = S.msh9_text(v, m, R.DEFAULT_EC)
        msg.msh.msh_10, msg.msh.msh_11 = '1', 'P'
        spots = []

        def rec(parent, r):
            kids = T.struct_children(r)
            names = [k[0] for k in kids]
            dups = sorted(set(n for n in names if names.count(n) > 1 and any(k[2][0] >= 1 for k in kids if k[0] == n)))
            added = set()
            for (n, cr, (mn, mx), kind) in kids:
                if n == 'MSH':
                    continue
                if kind == 'GRP':
                    rec(parent.add_group(n), cr)                 # every group once, so that every parent with such rows exists
                elif (mn >= 1 or (not added and not any(k[2][0] >= 1 for k in kids))) and n not in T.PSEUDO_SEGMENTS and not T.segment_defect(v, n) \
                        and n in T.lib(v).SEGMENTS and n not in added:
                    parent.add_segment(n)
                    added.add(n)
            for n in dups:
                spots.append((parent, n))
        rec(msg, T.message_ref(v, m))
        for parent, n in spots:
            victims = [c for c in parent.children if c.name == n]
            for c in victims:
                parent.children.remove(c)
            errs = [str(e) for e in msg.validate(return_errors=True).errors]
            if not any(n in e and 'issing' in e for e in errs):
                out.append(('C04-missing-required-child-listed-twice-not-reported', '%s %s: no %s left under %s (required by one of its two rows), errors %r' % (
                    v, m, n, parent.name, errs[:4])))
            for c in victims:
                parent.add(c)
    except Exception as e:
        return [('C04-dup-removal-raises:%s' % type(e).__name__, '%s %s: %s' % (v, m, _exc(e)))]
    return out


def check_hashseed(case):
    """the same construction validated in fresh interpreters under different hash seeds gives the same report"""
    import json
    import os
    import subprocess
    import sys
    from hv import common
    outs = []
    for hs in ('1', '2', '7'):
        p = subprocess.run([sys.executable, '-m', 'hv.hashseed_worker', common.REPO, json.dumps({k: case[k] for k in ('v', 'm', 'foreign', 'text')})],
                           cwd=common.VERIF_DIR, env=dict(os.environ, PYTHONHASHSEED=hs), stdout=subprocess.PIPE, stderr=subprocess.PIPE, timeout=300)
        if p.returncode != 0 or not p.stdout:
            raise common.HarnessError('hash-seed worker failed: %s' % p.stderr.decode('utf8', 'replace')[-300:])
        outs.append(json.loads(p.stdout.decode('utf8')))
    case['_errors'] = len(outs[0]['errors'])
    for k in ('errors', 'warnings', 'raised'):
        if not (outs[0][k] == outs[1][k] == outs[2][k]):
            return [('C04-report-depends-on-the-hash-seed:%s' % k, '%s %s with %r: %r vs %r vs %r' % (
                case['v'], case['m'], case['foreign'], outs[0][k], outs[1][k], outs[2][k]))]
    return []


def message_cells():
    return [(v, m) for v in T.VERSIONS for m in T.messages(v) if G.usable(v, m)]


def run_shard(shard, acc):
    if shard.get('kind') == 'hashseed':
        import random
        rnd = random.Random(shard['seed'])
        cells = message_cells()
        for i in range(shard['n']):
            v, m = cells[rnd.randrange(len(cells))]
            declared = set(k[0] for k in T.struct_children(T.message_ref(v, m)))
            foreign = [x for x in T.segments(v) if x not in declared and x != 'MSH' and not T.segment_defect(v, x)]
            case = {'kind': 'hashseed', 'v': v, 'm': m, 'foreign': rnd.sample(foreign, min(len(foreign), rnd.randrange(2, 6))),
                    'text': ['%s|1|a|||||||||||||||||||||||||||||||||||||||||||||||||||||||||||||||||||||||||||||z' % x for x in rnd.sample(foreign, 1)]}
            for sig, detail in check_hashseed(case):
                acc.violation(sig, case, detail)
            acc.case(None, case.pop('_errors', 0) > 0, sample=case if i < 2 else None, label='three-hash-seeds', enumerated=True)
        return
    if shard.get('kind') == 'dup':
        for v in T.VERSIONS:
            for m in T.messages(v):
                if dup_required_names(v, m):
                    case = {'kind': 'dup-required', 'v': v, 'm': m}
                    for sig, detail in check_dup_required(v, m):
                        acc.violation(sig, case, detail)
                    acc.case(None, True, sample=case, label='dup-required-sibling', enumerated=True)
        for v, m in dup_sibling_structures():
            case = {'kind': 'dup-removal', 'v': v, 'm': m}
            for sig, detail in check_dup_removal(v, m):
                acc.violation(sig, case, detail)
            acc.case(None, True, sample=case, label='dup-sibling-removal', enumerated=True)
        return
    by_name = {}
    for v, m in message_cells():
        by_name.setdefault(m, []).append(v)
    for name in shard['names']:
        vs = sorted(by_name[name], key=T.vkey)
        order = vs + vs[::-1][1:] if shard.get('both_orders') else (vs if shard['seed'] % 2 else vs[::-1])
        for k, v in enumerate(order):
            hyp_collect(acc, cases([(v, name)]), _run, shard['seed'] + k, shard['n'], shard['shrink'], rounds=6)
    n = len([k for k in acc.extra if k.startswith('struct:')])
    for k in [k for k in acc.extra if k.startswith('struct:')]:
        del acc.extra[k]
    acc.extra['structures_reached_in_shard'] += n


def replay_case(case):
    if case.get('kind') == 'dup-required':
        return check_dup_required(case['v'], case['m'])
    if case.get('kind') == 'dup-removal':
        return check_dup_removal(case['v'], case['m'])
    if case.get('kind') == 'hashseed':
        return check_hashseed(case)
    return check(case)


def replay(case, acc):
    return replay_case(case)


def plan(tier, seed):
    import random
    names = sorted(set(m for v, m in message_cells()))
    rnd = random.Random(seed)
    shards = [{'kind': 'dup'}, {'kind': 'hashseed', 'seed': seed, 'n': 4 if tier == 'quick' else 40}]
    if tier == 'quick':
        sample = rnd.sample(names, 45)
        shards += [{'names': sample[i::15], 'seed': seed * 1000 + i, 'n': 8, 'shrink': False} for i in range(15)]
    else:
        rnd.shuffle(names)
        shards += [{'names': names[i::63], 'seed': seed * 1000 + i, 'n': 14, 'shrink': True, 'both_orders': True} for i in range(63)]
    return shards
