"""C13 - base datatype values: acceptance matches the HL7 lexical definition, text is preserved."""
import re
import itertools
from decimal import Decimal

from hypothesis import strategies as st

from hv import tables as T
from hv import strategies as S
from hv.common import hyp_collect, h

ID = 'C13'
LEVEL = 'exploration'
EXHAUSTIVE = {'quick': True, 'thorough': True}
RULE = ('for DT, TM, DTM, NM, SI x STRICT/TOLERANT: (a) exhaustive enumeration of all strings up to length 5 (quick) / 6 '
        '(thorough) over the 12 symbols "0 1 2 3 5 6 9 . + - blank A"; (b) grids: every HH x MM x SS in 00-29 x 00-69 x 00-69 '
        'at each precision, 0-6 fractional digits, every offset +/-HHMM for HH 00-15 x MM 00-69 attached to several bodies, '
        'malformed/doubled/embedded offsets, month ends of years 1000 1900 2000 2023 2024 9999, Feb 29/30, DTM lengths 17-22; '
        '(c) Hypothesis single-character mutations of valid values; (d) numeric grammar positives and near-misses, length '
        'boundaries of every numeric and textual class of every version; (e) coverage-guided campaigns (atheris) over (datatype, version, '
        'string up to 40 characters without delimiter characters) seeded with the grids. Oracle: a three-valued lexical reference '
        '(valid / invalid / unspecified) written from the HL7 definitions; STRICT must accept valid and reject invalid with '
        'ValueError or an HL7apyException, accepted text re-encodes verbatim (numerics: same number, same text in plain '
        'decimal form), TOLERANT never raises and keeps rejected text verbatim, MaxLengthReached exactly beyond the maximum. '
        'Non-trivial = a string at edit distance <= 1 from a valid one (insert/delete/replace of one symbol), counted '
        'separately; distinct by (datatype, level, string) - by construction for the enumerated parts.')
ASSUMPTIONS = [
    'HL7 lexical forms: DT YYYY[MM[DD]]; TM HH[MM[SS[.S{1,4}]]][+/-ZZZZ]; DTM YYYY[MM[DD[HH[MM[SS[.S{1,4}]]]]]][+/-ZZZZ]; '
    'NM [+-]digits[.digits]; SI digits; offsets +0000..+1400 / -0000..-1200 with minutes 00-59',
    'unspecified (only consistency is checked): offsets +1401..+1459 / -1201..-1259, year 0000, NM with a bare leading '
    'or trailing decimal point, SI with a plus sign, length limits of numerics written with redundant leading zeros',
    'DT/TM/DTM/NM/SI classes are shared by all versions (same class objects), so the bulk enumeration uses one version '
    'and every other version is sampled',
]
TECHNIQUE = 'exhaustive bounded string enumeration + grids + Hypothesis mutation of valid literals + coverage-guided fuzzing (atheris) against a three-valued lexical reference'
LEVEL_TEXT = ('exploration, exhaustive inside the bounds: all strings <= 5/6 over 12 symbols for five datatypes and two levels, '
              'complete time-of-day and offset grids, calendar boundaries; sampled single-character mutations beyond')
LEVEL_NOTE = 'trusted: the lexical reference in this module (about 80 lines, regular expressions + calendar arithmetic)'

STRICT, TOL = 1, 2
SYMS = '0123569.+- A'

# ---------------------------------------------------------------------------------------------
# the reference

_DIM = [31, 28, 31, 30, 31, 30, 31, 31, 30, 31, 30, 31]
_OFFSET = re.compile(r'([+-])([0-9]{2})([0-9]{2})\Z')
_ASCII_DIGITS = re.compile(r'[0-9]+\Z')


def _leap(y):
    return y % 4 == 0 and (y % 100 != 0 or y % 400 == 0)


def ref_date(s):
    if not _ASCII_DIGITS.match(s) or len(s) not in (4, 6, 8):
        return 'invalid'
    y = int(s[:4])
    if len(s) >= 6:
        m = int(s[4:6])
        if not 1 <= m <= 12:
            return 'invalid'
        if len(s) == 8:
            d = int(s[6:8])
            dim = 29 if (m == 2 and _leap(y if y else 4)) else _DIM[m - 1]
            if not 1 <= d <= dim:
                return 'invalid'
    if y == 0:
        return 'unspecified'
    return 'valid'


def ref_offset(o):
    """'' -> valid (no offset)"""
    if o == '':
        return 'valid'
    m = _OFFSET.match(o)
    if not m:
        return 'invalid'
    sign, hh, mm = m.group(1), int(m.group(2)), int(m.group(3))
    if mm > 59:
        return 'invalid'
    lim = 14 if sign == '+' else 12
    if hh > lim:
        return 'invalid'
    if hh == lim and mm != 0:
        return 'unspecified'
    return 'valid'


def _split_off(s):
    for i, ch in enumerate(s):
        if ch in '+-':
            return s[:i], s[i:]
    return s, ''


def ref_timepart(t):
    m = re.match(r'([0-9]{2})(?:([0-9]{2})(?:([0-9]{2})(?:\.([0-9]{1,4}))?)?)?\Z', t)
    if not m:
        return 'invalid'
    hh, mm, ss = m.group(1), m.group(2), m.group(3)
    if int(hh) > 23 or (mm and int(mm) > 59) or (ss and int(ss) > 59):
        return 'invalid'
    return 'valid'


def _combine(*parts):
    if 'invalid' in parts:
        return 'invalid'
    if 'unspecified' in parts:
        return 'unspecified'
    return 'valid'


def ref_time(s):
    body, off = _split_off(s)
    return _combine(ref_timepart(body), ref_offset(off))


def ref_datetime(s):
    body, off = _split_off(s)
    if len(body) <= 8:
        return _combine(ref_date(body), ref_offset(off))
    return _combine(ref_date(body[:8]), ref_timepart(body[8:]), ref_offset(off))


def ref_nm(s):
    if re.match(r'[+-]?[0-9]+(\.[0-9]+)?\Z', s):
        return 'valid'
    if re.match(r'[+-]?([0-9]+\.|\.[0-9]+)\Z', s):
        return 'unspecified'
    return 'invalid'


def ref_si(s):
    if re.match(r'[0-9]+\Z', s):
        return 'valid'
    if re.match(r'\+[0-9]+\Z', s):
        return 'unspecified'
    return 'invalid'


REF = {'DT': ref_date, 'TM': ref_time, 'DTM': ref_datetime, 'NM': ref_nm, 'SI': ref_si}
PLAIN = re.compile(r'-?(0|[1-9][0-9]*)(\.[0-9]+)?\Z')
MAXLEN = {'NM': 16, 'SI': 4}


def _tag(dt, s):
    """coarse lexical feature of a string, so that different root causes get different signatures"""
    if any(ord(c) > 127 for c in s):
        return 'non-ascii'
    if ' ' in s or '\t' in s or '\n' in s:
        return 'blank'
    if '_' in s:
        return 'underscore'
    if re.search(r'[A-Za-z]', s):
        return 'letter'
    if dt in ('TM', 'DTM') and len(re.findall(r'[+-]', s)) > 1:
        return 'repeated-sign'
    if dt in ('NM', 'SI') and re.match(r'[+-]', s):
        return 'sign'
    if dt in ('DT', 'DTM') and s[:4].isdigit() and int(s[:4]) < 1000:
        return 'year-below-1000'
    return 'other'


# ---------------------------------------------------------------------------------------------

def _factory(dt, s, v, level):
    from hl7apy.factories import datatype_factory
    return datatype_factory(dt, s, v, level)


def check_value(dt, s, v, via='factory'):
    """-> list of (sig, detail) for one string and both levels"""
    from hl7apy.exceptions import HL7apyException, MaxLengthReached
    from hl7apy.core import SubComponent
    out = []
    verdict = REF[dt](s) if s != '' else 'unspecified'   # the empty value is not a lexical matter

    def make(level):
        if via == 'factory':
            return _factory(dt, s, v, level)
        sc = SubComponent(datatype=dt, value=s, version=v, validation_level=level)
        return sc

    # ---- STRICT
    accepted, enc, exc = True, None, None
    try:
        enc = make(STRICT).to_er7()
    except (ValueError, HL7apyException) as e:
        accepted, exc = False, e
    except Exception as e:
        return [('C13-%s-strict-wrong-exception:%s' % (dt, type(e).__name__), '%r: %s: %s' % (s, type(e).__name__, e))]
    too_long = dt in MAXLEN and verdict == 'valid' and PLAIN.match(s) and len(s) > MAXLEN[dt]
    if too_long:
        if accepted or not isinstance(exc, MaxLengthReached):
            sci = ':scientific-repr' if 'E' in str(Decimal(s)) else ''
            out.append(('C13-%s-maxlength-not-enforced%s' % (dt, sci), '%r (%d chars) under STRICT: %s' % (
                s, len(s), 'accepted as %r' % enc if accepted else repr(exc))))
    elif verdict == 'valid':
        if not accepted:
            if not (isinstance(exc, MaxLengthReached) and dt in MAXLEN and len(s) > MAXLEN[dt]):
                out.append(('C13-%s-strict-rejects-valid:%s' % (dt, _tag(dt, s)), '%r: %s: %s' % (s, type(exc).__name__, exc)))
        elif dt in ('DT', 'TM', 'DTM'):
            if enc != s:
                out.append(('C13-%s-encoding-differs:%s' % (dt, _tag(dt, s)), '%r -> %r' % (s, enc)))
        elif s != '':
            try:
                same_number = Decimal(enc) == Decimal(s)
            except Exception:
                same_number = False
            if not same_number:
                out.append(('C13-%s-number-changed' % dt, '%r -> %r' % (s, enc)))
            elif PLAIN.match(s) and enc != s:
                out.append(('C13-%s-plain-decimal-text-changed' % dt, '%r -> %r' % (s, enc)))
    elif verdict == 'invalid':
        if accepted:
            out.append(('C13-%s-strict-accepts-invalid:%s' % (dt, _tag(dt, s)), '%r accepted, encodes as %r' % (s, enc)))
        elif isinstance(exc, MaxLengthReached) and not (dt in MAXLEN and len(s) > MAXLEN[dt]):
            out.append(('C13-%s-maxlength-misreported' % dt, '%r: %s' % (s, exc)))
    # ---- TOLERANT
    try:
        tenc = make(TOL).to_er7()
    except Exception as e:
        out.append(('C13-%s-tolerant-raises:%s' % (dt, type(e).__name__), '%r: %s' % (s, e)))
        return out
    want = enc if accepted else s
    if not accepted and dt in ('NM', 'SI') and verdict != 'invalid' and isinstance(exc, MaxLengthReached) and s != '':
        # a number for the library (lexically valid, or a spelling the definition leaves open), refused by STRICT for its length only: TOLERANT accepts it as a number, and the statement
        # promises the same number (the same text when it is written in plain decimal form), not the spelling
        try:
            same = Decimal(tenc) == Decimal(s) and (not PLAIN.match(s) or tenc == s)
        except Exception:
            same = False
        if same:
            want = tenc
    if tenc != want:
        out.append(('C13-%s-tolerant-text-changed:%s' % (dt, _tag(dt, s)),
                    '%r -> %r under TOLERANT (STRICT %s)' % (s, tenc, 'gives %r' % enc if accepted else 'rejects')))
    return out


def check_utils(dt, s):
    from hl7apy import utils
    fn = {'DT': utils.check_date, 'TM': utils.check_timestamp, 'DTM': utils.check_datetime}[dt]
    verdict = REF[dt](s)
    try:
        got = fn(s)
    except Exception as e:
        return [('C13-%s-utils-raises:%s' % (dt, type(e).__name__), '%s(%r): %s' % (fn.__name__, s, e))]
    if verdict == 'valid' and got is not True:
        return [('C13-%s-utils-rejects-valid:%s' % (dt, _tag(dt, s)), '%s(%r) == %r' % (fn.__name__, s, got))]
    if verdict == 'invalid' and got is not False:
        return [('C13-%s-utils-accepts-invalid:%s' % (dt, _tag(dt, s)), '%s(%r) == %r' % (fn.__name__, s, got))]
    return []


def check_offset_consistency(dt, off, v):
    """acceptance of an offset must not depend on the body it is attached to"""
    bodies = {'TM': ['12', '1200', '120000', '120000.5'],
              'DTM': ['2020', '202001', '20200101', '2020010112', '202001011200', '20200101120000', '20200101120000.25']}[dt]
    res = []
    for b in bodies:
        try:
            _factory(dt, b + off, v, STRICT)
            res.append(True)
        except Exception:
            res.append(False)
    if len(set(res)) > 1:
        return [('C13-%s-offset-acceptance-depends-on-body' % dt, 'offset %r: %r' % (off, list(zip(bodies, res))))]
    return []


def check_textual_length(v, dt, n):
    """textual class dt of version v with a value of n characters"""
    from hl7apy.exceptions import MaxLengthReached
    cls = T.lib(v).BASE_DATATYPES[dt]
    probe = cls('5551234') if dt == 'TN' else cls('a')
    mx = probe.max_length
    n = max(n, 2) if dt == 'TN' else n      # a TN needs at least two digits to match its pattern
    s = ('5' * n) if dt == 'TN' else ('a' * n)
    out = []
    for level in (STRICT, TOL):
        try:
            o = _factory(dt, s, v, level)
            ok, enc = True, o.to_er7()
        except MaxLengthReached:
            ok, enc = False, None
        except Exception as e:
            out.append(('C13-%s-length-wrong-exception:%s' % (dt, type(e).__name__), '%d chars level %d: %s' % (n, level, e)))
            continue
        should_reject = level == STRICT and mx is not None and n > mx
        if ok == should_reject:
            out.append(('C13-%s-maxlength-not-enforced' % dt if ok else 'C13-%s-maxlength-misreported' % dt,
                        'v%s %s max_length=%r, %d chars, level %d: %s' % (v, dt, mx, n, level, 'accepted' if ok else 'rejected')))
        elif ok and enc != s:
            out.append(('C13-%s-text-changed' % dt, '%d chars' % n))
    return out, mx


# ---------------------------------------------------------------------------------------------
# domains

def near_valid(dt, s):
    """edit distance <= 1 from a valid string (cheap test: the string itself, or one deletion / replacement /
    insertion over the symbol alphabet yields a valid one); used only for the non-trivial count"""
    f = REF[dt]
    if f(s) == 'valid':
        return True
    for i in range(len(s)):
        if f(s[:i] + s[i + 1:]) == 'valid':
            return True
    for i in range(len(s) + 1):
        for c in '0123569.+-':
            if i < len(s) and f(s[:i] + c + s[i + 1:]) == 'valid':
                return True
    return False


def grid_strings(dt):
    """the structured grids of DESIGN.md (C13)"""
    out = []
    if dt in ('TM', 'DTM'):
        pre = '' if dt == 'TM' else '20200229'
        for hh in range(30):
            out.append(pre + '%02d' % hh)
            for mm in range(70):
                out.append(pre + '%02d%02d' % (hh, mm))
        for hh in (0, 9, 12, 23, 24):
            for mm in (0, 30, 59, 60):
                for ss in range(70):
                    out.append(pre + '%02d%02d%02d' % (hh, mm, ss))
        for frac in ('', '.', '.1', '.12', '.123', '.1234', '.12345', '.123456', '.1234567', '. 1', '.1 ', '.-1'):
            out.append(pre + '120000' + frac)
            out.append(pre + '120000' + frac + '+0100')
            out.append(pre + '1200' + frac)
        # every fraction of one to four digits (a float-based conversion mis-rounds about one in a hundred of them)
        for nd in (1, 2, 3, 4):
            for f in range(10 ** nd):
                out.append(pre + '235959.' + ('%0' + str(nd) + 'd') % f)
        # offsets
        bodies = ['12', '1200', '120000.5'] if dt == 'TM' else ['2020', '20200101', '202001011200', '20200101120000.25']
        for sign in '+-':
            for hh in range(16):
                for mm in range(70):
                    for b in bodies[:2]:
                        out.append(b + '%s%02d%02d' % (sign, hh, mm))
        for b in bodies:
            for bad in ('+100', '+01000', '+01:00', '+0a00', 'Z', '+-0100', '++0100', '+0100+0100', '+0100-0100',
                        '-0100-0100', '+010', '+', '-', '+0100 ', ' +0100', '+01 0', '+0060', '-0060', '+2400'):
                out.append(b + bad)
        out += ['+0100', '-0100', '2020+010001' if dt == 'DTM' else '12+010001', '12+0100+0100+0100']
    if dt in ('DT', 'DTM'):
        for y in (1000, 1900, 2000, 2023, 2024, 9999, 1, 999, 0):
            out.append('%04d' % y)
            for m in range(0, 14):
                out.append('%04d%02d' % (y, m))
                for d in (0, 1, 27, 28, 29, 30, 31, 32):
                    out.append('%04d%02d%02d' % (y, m, d))
        out += ['202012 1', '2020 101', '2020121 ', ' 2020', '2020 ', '20201', '2020123', '202012011', '2020-12-01',
                '20201201T12', u'２０２０', u'2020１２', '20A0', '2O20']
    if dt == 'DTM':
        for n in range(0, 8):
            out.append('20200101120000.' + '1' * n if n else '20200101120000')
        out += ['2020010112000', '20200101 1200', '202001011200 0', '2020010112:00', '20200229120000.1234-0500',
                '20210229', '2020022912+1400', '2020022912+1401', '2020022912-1200', '2020022912-1201', '202002291260']
    if dt in ('NM', 'SI'):
        nums = ['0', '1', '-1', '+1', '007', '-0', '1.5', '1.50', '-1.5', '+1.5', '.5', '5.', '-.5', '1e5', '1E5', '1E+5',
                '1e-5', 'NaN', 'nan', 'Infinity', '-Infinity', 'inf', 'sNaN', '1_000', '1_0', ' 1', '1 ', ' 1 ', '1 2',
                '\t1', '1\n', u'１２', u'١٢', '1,5', '1.2.3', '--1', '+-1', '1-', '1+', '0x10', '0b1', '0o7', '1L', '1f',
                '', '-', '+', '.', 'A', '1A', '0.0000001', '0.000000000000000001', '123456789012345', '1234567890123456',
                '12345678901234567', '123456789012345678', '0.12345678901234', '0.123456789012345', '-123456789012345',
                '-1234567890123456', '1234567.12345678', '12345678.12345678', '999', '9999', '10000', '99999', '0000',
                '00001', '-999', '-1000', '1.0', '1.', '10.0']
        out += nums
        for k in range(1, 14):
            out += ['0.' + '0' * k, '-0.' + '0' * k, '+0.' + '0' * k, '0.' + '0' * k + '1', '00.' + '0' * k, '0' * k, '-' + '0' * k,
                    '1.' + '0' * k, '10' + '0' * k, '0.' + '0' * k + '10']
    return sorted(set(out))


@st.composite
def mutated(draw, dt):
    base = draw({'DT': S.hl7_date(), 'TM': S.hl7_time(), 'DTM': S.hl7_datetime(),
                 'NM': S.plain_decimal(), 'SI': st.integers(0, 9999).map(str)}[dt])
    alpha = '0123456789.+- A_e' + u'５'
    s = base
    for _ in range(draw(st.integers(1, 2))):
        op = draw(st.integers(0, 3))
        i = draw(st.integers(0, max(len(s) - 1, 0)))
        c = draw(st.sampled_from(alpha))
        if op == 0:
            s = s[:i] + c + s[i:]
        elif op == 1 and s:
            s = s[:i] + s[i + 1:]
        elif op == 2 and s:
            s = s[:i] + c + s[i + 1:]
        elif len(s) >= 2:
            i = min(i, len(s) - 2)
            s = s[:i] + s[i + 1] + s[i] + s[i + 2:]
    return s


# ---------------------------------------------------------------------------------------------

def dts_of(v):
    return [d for d in ('DT', 'TM', 'DTM', 'NM', 'SI') if d in T.lib(v).BASE_DATATYPES]


def check(case, acc=None):
    k = case['kind']
    if k == 'value':
        return check_value(case['dt'], case['s'], case['v'], case.get('via', 'factory'))
    if k == 'utils':
        return check_utils(case['dt'], case['s'])
    if k == 'offset':
        return check_offset_consistency(case['dt'], case['s'], case['v'])
    if k == 'length':
        return check_textual_length(case['v'], case['dt'], case['n'])[0]
    raise ValueError(k)


FUZZ_DTS = ('DT', 'TM', 'DTM', 'NM', 'SI')
FUZZ_TOKENS = ['2020', '0101', '1231', '0229', '2359', '+0100', '-1200', '.5', '.1234', '0000', '24', '60', '+', '-', '.', 'E5', 'e-3', '19000101',
               '99991231235959.9999+1400', '0.0000001', '-0', '+0', '00', ' ']


def fuzz_decode(data):
    data = bytes(data)
    dt = FUZZ_DTS[(data[0] if data else 0) % 5]
    vs = [v for v in T.VERSIONS if dt in T.lib(v).BASE_DATATYPES]
    v = vs[(data[1] if len(data) > 1 else 0) % len(vs)]
    return {'kind': 'value', 'dt': dt, 's': data[2:].decode('utf-8', 'ignore'), 'v': v}


def fuzz_encode(case):
    vs = [v for v in T.VERSIONS if case['dt'] in T.lib(v).BASE_DATATYPES]
    return bytes([FUZZ_DTS.index(case['dt']), vs.index(case['v'])]) + case['s'].encode('utf-8')


def fuzz_one(data):
    case = fuzz_decode(data)
    s = case['s']
    if any(c in s for c in '|^~\\&#\r'):
        # delimiter / escape characters are (rightly) escaped by to_er7(): a matter of C06, outside the domain of this property
        return [], False, case, 'fuzz:outside-domain'
    return check(case), bool(s) and (near_valid(case['dt'], s) if len(s) < 14 else REF[case['dt']](s) != 'invalid'), case, 'fuzz:' + case['dt']


def replay(case, acc):
    return check(case)


def _one(acc, case, nontrivial, enumerated=True):
    for sig, detail in check(case):
        acc.violation(sig, case, detail)
    if enumerated:
        acc.evaluations += 1
        if nontrivial:
            acc.nontrivial_enum += 1
    else:
        acc.case(h(case), nontrivial, sample=case, label=case['kind'] + ':' + case['dt'])


def run_shard(shard, acc):
    kind = shard['kind']
    if kind == 'enum':
        dt, v = shard['dt'], shard['v']
        n = 0
        for pre in shard['prefixes']:
            for L in range(0, shard['maxlen'] - len(pre) + 1):
                for t in itertools.product(SYMS, repeat=L):
                    s = pre + ''.join(t)
                    n += 1
                    _one(acc, {'kind': 'value', 'dt': dt, 's': s, 'v': v}, near_valid(dt, s))
                    if n % 50 == 0:
                        _one(acc, {'kind': 'value', 'dt': dt, 's': s, 'v': v, 'via': 'subcomponent'}, False)
                    if dt in ('DT', 'TM', 'DTM') and n % 7 == 0:
                        _one(acc, {'kind': 'utils', 'dt': dt, 's': s}, False)
        acc.classes['enumerated:' + dt] += n
        if shard.get('short'):
            for L in range(0, len(shard['prefixes'][0])):
                for t in itertools.product(SYMS, repeat=L):
                    _one(acc, {'kind': 'value', 'dt': dt, 's': ''.join(t), 'v': v}, True)
    elif kind == 'grid':
        dt = shard['dt']
        strings = grid_strings(dt)
        for v in shard['versions']:
            if dt not in T.lib(v).BASE_DATATYPES:
                continue
            for i, s in enumerate(strings):
                if i % shard['of'] != shard['k']:
                    continue
                _one(acc, {'kind': 'value', 'dt': dt, 's': s, 'v': v}, near_valid(dt, s) if len(s) < 12 else True)
                _one(acc, {'kind': 'value', 'dt': dt, 's': s, 'v': v, 'via': 'subcomponent'}, False)
                if dt in ('DT', 'TM', 'DTM'):
                    _one(acc, {'kind': 'utils', 'dt': dt, 's': s}, False)
            acc.classes['grid:' + dt] += len(strings) // shard['of']
        if dt in ('TM', 'DTM') and shard['k'] == 0:
            v = shard['versions'][-1]
            for sign in '+-':
                for hh in range(16):
                    for mm in range(70):
                        _one(acc, {'kind': 'offset', 'dt': dt, 's': '%s%02d%02d' % (sign, hh, mm), 'v': v}, True)
        if shard['k'] == 0:
            acc.samples.extend([{'kind': 'value', 'dt': dt, 's': s} for s in strings[::max(1, len(strings) // 4)][:4]])
    elif kind == 'mutate':
        dt = shard['dt']

        def run(s, acc):
            case = {'kind': 'value', 'dt': dt, 's': s, 'v': shard['v']}
            acc.case(h([dt, s]), near_valid(dt, s) if len(s) < 14 else True, sample=case, label='mutated:' + dt)
            return check(case)
        hyp_collect(acc, mutated(dt), run, shard['seed'], shard['n'], shard['shrink'])
    elif kind == 'fuzz':
        # coverage-guided campaign over (datatype, version, string): seeds = grid strings of every datatype
        from hv import common
        seeds = []
        for dt in FUZZ_DTS:
            g = grid_strings(dt)
            seeds += [fuzz_encode({'dt': dt, 's': x, 'v': '2.5'}) for x in g[shard['k']::max(1, len(g) // 40)][:40]]
        common.run_fuzz(acc, 'c13', seeds if shard['k'] % 4 else [], shard['seed'], shard['runs'], 40, check, fuzz_decode,
                        'coverage-guided', dictionary=FUZZ_TOKENS, text_key='s')
    elif kind == 'lengths':
        for v in shard['versions']:
            for dt in sorted(T.textual_classes(v)):
                probe_max = check_textual_length(v, dt, 1)[1]
                ns = [1, 19, 20, 21, 198, 199, 200, 201] if probe_max is None or probe_max < 1000 else [199, 200, 65535, 65536, 65537]
                for n in ns:
                    _one(acc, {'kind': 'length', 'v': v, 'dt': dt, 'n': n}, True)
            acc.classes['length-boundaries'] += 1


def plan(tier, seed):
    shards = []
    maxlen = 6 if tier == 'thorough' else 5
    v_bulk = '2.5'
    pre2 = [a + b for a in SYMS for b in SYMS]
    nshard = 12 if tier == 'thorough' else 4
    for dt in ('DT', 'TM', 'DTM', 'NM', 'SI'):
        for k in range(nshard):
            shards.append({'kind': 'enum', 'dt': dt, 'v': v_bulk, 'maxlen': maxlen, 'prefixes': pre2[k::nshard], 'short': k == 0})
        of = 4
        for k in range(of):
            vs = T.VERSIONS if tier == 'thorough' else sorted(set(['2.5', T.VERSIONS[(seed + k) % 12]]), key=T.vkey)
            shards.append({'kind': 'grid', 'dt': dt, 'versions': vs, 'k': k, 'of': of})
        shards.append({'kind': 'mutate', 'dt': dt, 'v': T.VERSIONS[(seed + len(dt)) % 7 + 5] if dt != 'DTM' else '2.6',
                       'seed': seed * 100 + len(shards), 'n': 4000 if tier == 'thorough' else 400, 'shrink': tier == 'thorough'})
    shards.append({'kind': 'lengths', 'versions': T.VERSIONS})
    for k in range(2 if tier == 'quick' else 16):
        shards.append({'kind': 'fuzz', 'k': k + 1, 'seed': seed * 1000 + 700 + k, 'runs': 20000 if tier == 'quick' else 400000})
    return shards
