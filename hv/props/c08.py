"""C08 - group-finding is sound, order-preserving and deterministic."""
from hypothesis import strategies as st

from hv import tables as T
from hv import refmodel as R
from hv import strategies as S
from hv import msggen as G
from hv.common import hyp_collect, h

ID = 'C08'
LEVEL = 'exploration'
EXHAUSTIVE = {}
RULE = ('for message structures of every version (thorough: every usable structure name in all its versions, visited in ascending and then descending version order inside one process; quick: 32 seeded structure names in all their versions) Hypothesis draws instances '
        'from the structure tables - modes required-only, all-children, random, repeated groups down to depth 3 - as a group tree that '
        'is then flattened into segment lines (conforming content, default or drawn delimiters). Oracle on parse_message(text, '
        'find_groups=True): (1) every group/segment is a declared child of the right kind of its parent, by the harness\'s own descent '
        'through the structure table; (2) flattening the tree gives the input lines (name and encoding); (3) the encoding equals the one '
        'obtained with find_groups=False; (4) a second parse gives the same shape; (5) for instances whose segment names each occur at '
        'one place of the structure the nested shape equals the tree the generator built and validate() reports no error. Non-trivial '
        '= an instance with at least one group (for clause 5: a repeated or nested group); distinct by (version, structure, shape, text hash).')
ASSUMPTIONS = [
    'a group is repeated only through an anchor (a non-repeatable first member recurs), the only situation in which the property '
    'prescribes a new repetition; groups without anchor are emitted once',
    'children with cardinality (0,0) and pseudo segments are never emitted; second siblings of the same name are never emitted',
    'TOLERANT validation level',
]
TECHNIQUE = 'Hypothesis table-driven instance generation (tree built first, then flattened) + structural oracle written from the structure tables'
LEVEL_TEXT = 'exploration: sampled instances per structure; thorough visits every usable structure of every version in four modes'
LEVEL_NOTE = 'trusted: the harness reading of the structure tables (hv/tables.py, hv/msggen.py), shared with C04 and C18'

TOL = 2


def shape_of(el):
    from hl7apy.core import Segment
    out = []
    for c in el.children:
        if isinstance(c, Segment):
            out.append(c.name)
        else:
            out.append([c.name, shape_of(c)])
    return out


def flat_segments(el):
    from hl7apy.core import Segment
    out = []
    for c in el.children:
        if isinstance(c, Segment):
            out.append(c)
        else:
            out.extend(flat_segments(c))
    return out


def soundness(el, ref, path):
    """every child is a declared child (of the right kind) of its parent"""
    from hl7apy.core import Segment, Group
    kids = T.struct_children(ref)
    segs = set(k[0] for k in kids if k[3] == 'SEG')
    grps = dict((k[0], k[1]) for k in kids if k[3] == 'GRP')
    for c in el.children:
        if isinstance(c, Segment):
            if c.name not in segs:
                return 'segment %s is attached under %s, which does not declare it' % (c.name, path)
        elif isinstance(c, Group):
            if c.name not in grps:
                return 'group %s is attached under %s, which does not declare it' % (c.name, path)
            r = soundness(c, grps[c.name], path + '/' + c.name)
            if r:
                return r
        else:
            return 'unexpected child %r under %s' % (c, path)
    return None


def check(case, acc=None):
    from hl7apy import parser as P
    v, m, text = case['v'], case['m'], case['text']
    out = []
    try:
        a = P.parse_message(text, validation_level=TOL, find_groups=True)
    except Exception as e:
        return [('C08-parse-raises:%s' % type(e).__name__, '%s %s: %s\n%r' % (v, m, str(e)[:200], text[:300]))]
    ref = T.message_ref(v, m)
    bad = soundness(a, ref, m)
    if bad:
        out.append(('C08-undeclared-child', '%s %s: %s\nshape %r' % (v, m, bad, shape_of(a))))
    lines = text.split('\r')
    segs = flat_segments(a)
    got_lines = [s.to_er7() for s in segs]
    if got_lines != lines:
        if [l[:3] for l in got_lines] != [l[:3] for l in lines]:
            out.append(('C08-flattened-order-differs', '%s %s: tree gives %r, input %r' % (v, m, [l[:3] for l in got_lines], [l[:3] for l in lines])))
        else:
            k = [i for i, (x, y) in enumerate(zip(got_lines, lines)) if x != y][0]
            out.append(('C08-segment-content-differs', '%s %s: %r vs %r' % (v, m, got_lines[k], lines[k])))
    try:
        b = P.parse_message(text, validation_level=TOL, find_groups=False)
        if a.to_er7() != b.to_er7():
            out.append(('C08-encoding-differs-between-find_groups', '%s %s\non  %r\noff %r' % (v, m, a.to_er7()[:300], b.to_er7()[:300])))
    except Exception as e:
        out.append(('C08-parse-raises:%s' % type(e).__name__, 'find_groups=False %s %s: %s' % (v, m, str(e)[:200])))
    try:
        a2 = P.parse_message(text, validation_level=TOL, find_groups=True)
        if shape_of(a2) != shape_of(a):
            out.append(('C08-not-deterministic', '%r vs %r' % (shape_of(a), shape_of(a2))))
    except Exception as e:
        out.append(('C08-parse-raises:%s' % type(e).__name__, 'second parse: %s' % str(e)[:200]))
    if case['eligible'] and not out:
        if shape_of(a) != case['shape']:
            out.append(('C08-tree-differs-from-prescribed', '%s %s\nparsed     %r\nprescribed %r' % (v, m, shape_of(a), case['shape'])))
        elif case['conforming']:
            try:
                rep = a.validate(return_errors=True)
                if rep.errors:
                    out.append(('C08-eligible-conforming-instance-does-not-validate', '%s %s: %s\n%r' % (
                        v, m, [str(e) for e in rep.errors[:3]], text[:400])))
            except Exception as e:
                out.append(('C08-validate-raises:%s' % type(e).__name__, str(e)[:200]))
    return out


def replay(case, acc):
    return check(case)


@st.composite
def cases(draw, cells, modes=('required', 'all', 'random', 'repeat', 'repeat')):
    v, m = draw(st.sampled_from(cells))
    mode = draw(st.sampled_from(modes))
    unique = draw(st.booleans())
    tree = draw(G.instances(v, m, mode=mode, unique=unique))
    ec = S.default_ec(v, truncation=False) if draw(st.integers(0, 4)) else draw(S.delimiter_sets(v, message_level=True, default_weight=0))
    if T.vkey(v) < [2, 7]:
        ec.pop('TRUNCATION', None)
    lines = draw(G.instance_lines(v, m, tree, ec, conforming=True))
    return {'v': v, 'm': m, 'mode': mode, 'text': '\r'.join(lines), 'shape': G.shape(tree), 'eligible': G.eligible(v, m, tree),
            'conforming': True, 'nested': G.depth(tree), 'repeated': G.has_repeated_group(tree), 'groups': G.has_group(tree)}


def _run(case, acc):
    nt = case['groups']
    acc.case(h([case['v'], case['m'], case['shape'], case['text']]), nt, sample=case if len(case['text']) < 900 else None,
             label='mode:' + case['mode'])
    if case['eligible']:
        acc.label('eligible-for-clause-5')
        if case['repeated'] or case['nested'] >= 2:
            acc.label('eligible-with-repeated-or-nested-group')
    if case['repeated']:
        acc.label('repeated-group')
    if case['nested'] >= 2:
        acc.label('nesting>=2')
    acc.extra['struct:%s:%s' % (case['v'], case['m'])] += 1
    return check(case)


def run_shard(shard, acc):
    # one process handles every version of a structure name, one version after the other (ascending, then descending):
    # a result that depends on what was parsed before is a determinism violation and only shows up that way
    by_name = {}
    for v, m in message_cells():
        by_name.setdefault(m, []).append(v)
    for name in shard['names']:
        vs = sorted(by_name[name], key=T.vkey)
        order = vs + vs[::-1][1:] if shard.get('both_orders') else (vs if shard['seed'] % 2 else vs[::-1])
        for k, v in enumerate(order):
            hyp_collect(acc, cases([(v, name)]), _run, shard['seed'] + k, shard['n'], shard['shrink'])
    n = len([k for k in acc.extra if k.startswith('struct:')])
    for k in [k for k in acc.extra if k.startswith('struct:')]:
        del acc.extra[k]
    acc.extra['structures_reached_in_shard'] += n


def message_cells():
    return [(v, m) for v in T.VERSIONS for m in T.messages(v) if G.usable(v, m)]


def nested_single_group_names():
    """structure names in which a group that cannot be repeated sits inside a repeatable group: a recurring member of the
    inner group has to open a new repetition of the OUTER one (the cascade is the part of the group finder that broke twice)"""
    out = set()
    for v, m in message_cells():
        def rec(ref):
            for n, r, (mn, mx), kind in T.struct_children(ref):
                if kind == 'GRP':
                    a = G.anchor_index(v, r)
                    if mx != 1 and a is not None and G.children(r)[a][3] == 'GRP':
                        out.add(m)      # a repeatable group recognised by a member of a nested single group
                    rec(r)
        rec(T.message_ref(v, m))
    return sorted(out)


def required_repeatable_member_names():
    """structure names with a segment that is required AND repeatable (1, -1) inside a group: its second occurrence stays in the
    same group instance (a test on the cardinality that reads the wrong end of the pair gets it wrong)"""
    out = set()
    for v, m in message_cells():
        def rec(ref, inside):
            for n, r, (mn, mx), kind in T.struct_children(ref):
                if kind == 'GRP':
                    rec(r, True)
                elif inside and mn >= 1 and mx == -1 and G._seg_ok(v, n):
                    out.add(m)
        rec(T.message_ref(v, m), False)
    return sorted(out)


def plan(tier, seed):
    import random
    names = sorted(set(m for v, m in message_cells()))
    rnd = random.Random(seed)
    if tier == 'quick':
        special = nested_single_group_names()
        special2 = [n for n in required_repeatable_member_names() if n not in special]
        chosen = rnd.sample(special, min(len(special), 12)) + rnd.sample(special2, min(len(special2), 6))
        sample = chosen + rnd.sample([n for n in names if n not in chosen], 16)
        rnd.shuffle(sample)
        return [{'names': sample[i::16], 'seed': seed * 1000 + i, 'n': 4, 'shrink': False} for i in range(16)]
    rnd.shuffle(names)
    return [{'names': names[i::64], 'seed': seed * 1000 + i, 'n': 8, 'shrink': True, 'both_orders': True} for i in range(64)]
