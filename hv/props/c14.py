"""C14 - name, long name, positional path and letter case address the same child."""
import random
import collections

from hv import tables as T
from hv import lit
from hv.common import h

ID = 'C14'
LEVEL = 'exploration'
EXHAUSTIVE = {'quick': False, 'thorough': True}
RULE = ('table sweep over versions x segments x fields (every row, both tiers) and over every field with a complex datatype x '
        'its components x sub-components (thorough: every row; quick: two seeded components per field): for each child a seeded '
        'triple of spellings (write via A, read via B, delete via C) drawn from {HL7 name, long name where admissible, positional '
        'path from the field} x {upper, lower, mixed case}; plus the negative space (children of other parents, indices beyond the '
        'table, components beyond the datatype, malformed paths) for get/set/del. Oracle: read returns the identical object that '
        'the HL7 name returns, with the table name; the encoding equals the reference text of that position; delete empties the '
        'slot; negative names raise ChildNotFound/ChildNotValid and change nothing. Non-trivial = a spelling triple whose write '
        'and read spellings differ, or a negative probe; distinct by (version, parent, child, A, B, C).')
ASSUMPTIONS = [
    'a long name is admissible when it is unique among the siblings in the table, is not None and (in the spelled letter '
    'case) is not an attribute of the element class (cls_attrs, methods, properties)',
    'positional paths are addressed from the field element (seg.<field>.<seg>_<i>_<j>_<k>), as the API documents',
    'TOLERANT validation, default delimiters',
]
TECHNIQUE = 'exhaustive table-driven enumeration of spelling triples (metamorphic: different spellings, same object) + negative-name probes'
LEVEL_TEXT = ('exploration; exhaustive over the field rows of all 12 versions in both tiers and over component / sub-component '
              'rows in the thorough tier; the spelling triple per row is seeded')
LEVEL_NOTE = 'trusted: the harness computation of admissible long names and of the reference text; one spelling triple per row per run'

TOL = 2


def _imports():
    from hl7apy.core import Segment, Field, Component, Message
    from hl7apy.exceptions import ChildNotFound, ChildNotValid
    return Segment, Field, Component, Message, ChildNotFound, ChildNotValid


def mixed(name, rnd):
    for _ in range(8):
        s = ''.join(c.upper() if rnd.random() < 0.5 else c.lower() for c in name)
        if s != name.upper() and s != name.lower():
            return s
    return name.lower()


def case_variants(name, rnd):
    return [name.upper(), name.lower(), mixed(name, rnd)]


def admissible_longnames(rows, cls):
    """rows: (name, idx, ref, card); -> {hl7 name: long name} for long names unique among the siblings"""
    cnt = {}
    for (name, i, ref, card) in rows:
        ln = ref[3] if len(ref) > 3 else None
        if ln:
            cnt[ln.upper()] = cnt.get(ln.upper(), 0) + 1
    names = set(r[0].upper() for r in rows)
    out = {}
    for (name, i, ref, card) in rows:
        ln = ref[3] if len(ref) > 3 else None
        if ln and cnt[ln.upper()] == 1 and ln.upper() not in names:
            out[name] = ln
    return out


def spell_ok(cls, spelled):
    """the spelling is not an attribute of the element class (those shadow children by design)"""
    return spelled not in cls.cls_attrs and not hasattr(cls, spelled)


def snapshot(el):
    def listing(e):
        out = []
        for c in e.children:
            out.append((type(c).__name__, c.name))
            if hasattr(c, 'children') and type(c).__name__ != 'SubComponent':
                out.append(listing(c))
        return out
    return (el.to_er7(), listing(el))


def _exc(e):
    return '%s: %s' % (type(e).__name__, str(e)[:160])


# ------------------------------------------------------------------------------------------------

def check_triple(case):
    """case: level 'field' | 'component' | 'subcomponent' ; spellings A, B, C ; value"""
    Segment, Field, Component, Message, CNF, CNV = _imports()
    v, s, fname, i = case['v'], case['s'], case['fname'], case['i']
    A, B, C, val = case['A'], case['B'], case['C'], case['val']
    level = case['level']
    sig = 'addressing-%s:%s' % (level, case.get('sigkey', ''))
    out = []
    nsep = i - 1 if s == 'MSH' else i
    try:
        seg = Segment(s, version=v, validation_level=TOL)
        bare = seg.to_er7()
        if level == 'field':
            parent, canon = seg, fname
            exp = s + '|' * nsep + val
        else:
            if case.get('retype') and case.get('retype_how') == 'ctor':
                # the field built with a datatype of its own (a varies field given its type, or a type other than the table's)
                f = Field(fname, datatype=case['retype'], version=v, validation_level=TOL)
                seg.add(f)
            else:
                f = seg.add_field(fname)
                if case.get('retype'):
                    f.datatype = case['retype']
            j, cname = case['j'], case['cname']
            if level == 'component':
                parent, canon = f, cname
                exp = s + '|' * nsep + '^' * (j - 1) + val
            else:
                k, sname = case['k'], case['sname']
                exp = s + '|' * nsep + '^' * (j - 1) + '&' * (k - 1) + val
                if case['via'] == 'field-path':
                    parent, canon = f, None        # every spelling is a path from the field
                else:
                    parent, canon = getattr(f, cname)[0] if len(getattr(f, cname)) else f.add_component(cname), sname
        # write: by assignment, or - when asked - by creating the child with add_<child>(spelling) and valuing it
        if case.get('via_add') and level in ('field', 'component') or (case.get('via_add') and level == 'subcomponent' and case['via'] == 'component'):
            adder = {'Segment': 'add_field', 'Field': 'add_component', 'Component': 'add_subcomponent'}[type(parent).__name__]
            child = getattr(parent, adder)(A)
            if child.name != canon:
                out.append((sig, '%s(%r) created a child named %r, expected %r' % (adder, A, child.name, canon)))
            child.value = val
        else:
            setattr(parent, A, val)
        got = seg.to_er7()
        if got != exp:
            out.append((sig, 'write via %r: encoded %r, expected %r' % (A, got, exp)))
        # read via B and via the canonical spelling
        pb = getattr(parent, B)
        if len(pb) != 1:
            out.append((sig, 'read via %r after write via %r: %d children' % (B, A, len(pb))))
            return out
        if level == 'subcomponent' and case['via'] == 'field-path':
            comp = getattr(f, case['cname'])[0]
            pn = getattr(comp, case['sname'])
            want_name = case['sname']
        else:
            pn = getattr(parent, canon)
            want_name = canon
        if len(pn) != 1 or pn[0] is not pb[0]:
            out.append((sig, 'spellings %r and %r (and the HL7 name) do not reach one and the same child' % (A, B)))
        if pb[0].name != want_name:
            out.append((sig, 'child reached via %r is named %r, expected %r' % (B, pb[0].name, want_name)))
        if pb[0].to_er7() != val:
            out.append((sig, 'child reached via %r encodes %r, expected %r' % (B, pb[0].to_er7(), val)))
        # a second write through B replaces (does not add)
        setattr(parent, B, val)
        if seg.to_er7() != exp:
            out.append((sig, 'second write via %r: encoded %r, expected %r' % (B, seg.to_er7(), exp)))
        # delete via C
        delattr(parent, C)
        pn2 = getattr(parent, B)
        if len(pn2) != 0:
            out.append((sig, 'after delete via %r the child is still reachable via %r' % (C, B)))
        if level == 'field' and seg.to_er7() != bare:
            out.append((sig, 'after delete via %r: %r' % (C, seg.to_er7())))
        if level != 'field' and seg.to_er7().replace('|', '').replace('^', '').replace('&', '') != s:
            out.append((sig, 'after delete via %r the value is still encoded: %r' % (C, seg.to_er7())))
    except Exception as e:
        out.append((sig + ':raises:' + type(e).__name__, 'A=%r B=%r C=%r: %s' % (A, B, C, _exc(e))))
    return out


def check_negative(case):
    """a name that designates no child of that parent: get/set/del raise ChildNotFound/ChildNotValid, create nothing"""
    Segment, Field, Component, Message, CNF, CNV = _imports()
    v, s = case['v'], case['s']
    out = []
    try:
        seg = Segment(s, version=v, validation_level=TOL)
        parent = seg
        if case['on'] == 'component':
            # a component of the field, empty or holding its first sub-component
            f = seg.add_field(case['fname'])
            parent = f.add_component(case['cname'])
            if case['fill'] is not None:
                parent.value = case['fill']
        elif case['on'] != 'segment':
            f = seg.add_field(case['fname'])
            if case.get('retype'):
                f.datatype = case['retype']
            f.value = case['fill']
            parent = f
        else:
            setattr(seg, case['fname'], case['fill'])
    except Exception as e:
        return [('negative-setup-failed', _exc(e))]
    before = snapshot(seg)
    bad = case['bad']
    for mode in ('get', 'set', 'del'):
        try:
            if mode == 'get':
                r = getattr(parent, bad)
                res = 'returned %r' % (r,)
            elif mode == 'set':
                setattr(parent, bad, 'X')
                res = 'accepted'
            else:
                delattr(parent, bad)
                res = 'accepted'
            out.append(('negative-name-%s-accepted:%s' % (mode, case['why']), '%s %r on %s %s: %s' % (
                mode, bad, case['on'], getattr(parent, 'name', None), res)))
        except (CNF, CNV):
            pass
        except Exception as e:
            out.append(('negative-name-%s-wrong-exception:%s:%s' % (mode, case['why'], type(e).__name__),
                        '%s %r on %s %s: %s' % (mode, bad, case['on'], getattr(parent, 'name', None), _exc(e))))
        after = snapshot(seg)
        if after != before:
            out.append(('negative-name-%s-changed-state:%s' % (mode, case['why']), '%s %r: %r -> %r' % (
                mode, bad, before, after)))
            before = after
    return out


def check_longname(case):
    """the long name the version's FIELDS table gives to exactly one field of a segment designates that field"""
    Segment, Field, Component, Message, CNF, CNV = _imports()
    v, s, fname, long_, val = case['v'], case['s'], case['fname'], case['long'], case['val']
    try:
        seg = Segment(s, version=v, validation_level=TOL)
        setattr(seg, long_.lower(), val)
        names = [c.name for c in seg.children]
    except Exception as e:
        return [('longname-of-fields-table-raises:%s' % type(e).__name__, '%s %s.%s (%s): %s' % (v, s, long_.lower(), fname, _exc(e)))]
    if names != [fname]:
        return [('longname-of-fields-table-designates-another-field', '%s: %s.%s = %r created %r; FIELDS gives this long name to %s only' % (
            v, s, long_.lower(), val, names, fname))]
    return []


def check_overflow(case):
    """TOLERANT keeps two components in a base-datatype field (they are named after the datatype): every letter case of that
    name designates those same children"""
    from hl7apy import parser as P
    v, s, fname, i, dt = case['v'], case['s'], case['fname'], case['i'], case['dt']
    try:
        seg = P.parse_segment(s + '|' * i + 'a^b', version=v, validation_level=TOL)
        f = getattr(seg, fname)[0]
        kids = [id(c) for c in f.children]
        if len(kids) != 2:
            return []
        for spell in (f.children[0].name, f.children[0].name.lower(), f.children[0].name.capitalize()):
            try:
                got = [id(c) for c in getattr(f, spell)]
            except Exception as e:
                return [('overflowed-field-children-by-name-raises:%s' % type(e).__name__, '%s %s.%s holding a^b: .%s: %s' % (v, s, fname, spell, _exc(e)))]
            if got != kids:
                return [('overflowed-field-children-by-name-differ', '%s %s.%s holding a^b: .%s gives %d of 2 children' % (v, s, fname, spell, len(got)))]
    except Exception as e:
        return [('overflowed-field-setup-raises:%s' % type(e).__name__, '%s %s.%s: %s' % (v, s, fname, _exc(e)))]
    return []


def check(case):
    if case['kind'] == 'overflow':
        return check_overflow(case)
    if case['kind'] == 'longname':
        return check_longname(case)
    return check_negative(case) if case['kind'] == 'negative' else check_triple(case)


def replay(case, acc):
    return check(case)


# ------------------------------------------------------------------------------------------------

def _spellings(name, longname, cls, rnd, paths=()):
    """list of (spelling, kind)"""
    out = []
    for base, kind in [(name, 'name')] + ([(longname, 'long')] if longname else []) + [(p, 'path') for p in paths]:
        for sp in case_variants(base, rnd):
            if spell_ok(cls, sp):
                out.append((sp, kind))
    return out


def _emit(acc, case, nontrivial):
    if case.get('kind') == 'triple' and case.get('sigkey', '').split('>')[0].split(':')[-1] in ('name', 'long') and \
            not (case['level'] == 'subcomponent' and case.get('via') == 'field-path') and (hash(case['A']) + len(case['fname'])) % 3 == 0:
        case = dict(case, via_add=True, sigkey=case['sigkey'] + ':add')
    _emit2(acc, case, nontrivial)


def _emit2(acc, case, nontrivial):
    for sig, detail in check(case):
        acc.violation(sig, case, detail)
    acc.case(None, nontrivial, sample=case, label=case.get('level', case['kind']), enumerated=True)


def run_shard(shard, acc):
    # one process walks the same slice of segments through every version, in ascending or descending order: whatever the
    # library remembers from one version must not leak into the next
    order = T.VERSIONS if shard['k'] % 2 == 0 else T.VERSIONS[::-1]
    for v in order:
        segs = list(T.segments(v))[shard['k']::shard['of']]
        _run_version(dict(shard, v=v, names=segs, seed=shard['seed'] + len(v) + T.VERSIONS.index(v)), acc)


def _run_version(shard, acc):
    Segment, Field, Component, Message, CNF, CNV = _imports()
    v, rnd = shard['v'], random.Random(shard['seed'])
    if shard['k'] == 0:
        # locally defined segments: every position is a child, spelled as a plain positive decimal
        for z in ('ZXX', 'Z0A', 'ZZ0'):
            for bad, why in (('%s_0' % z, 'index-zero'), ('%s_01' % z, 'index-with-leading-zero'), ('%s_+2' % z, 'index-with-sign'), ('%s_-1' % z, 'index-negative'),
                             ('%s_x' % z, 'malformed'), ('ZYY_1', 'foreign-field')):
                _emit(acc, {'kind': 'negative', 'on': 'segment', 'v': v, 's': z, 'fname': '%s_1' % z, 'fill': 'a', 'bad': bad, 'why': 'z-segment:' + why}, True)
    thorough = shard['thorough']
    segs = shard['names']
    allsegs = T.segments(v)
    for s in segs:
        rows = T.seg_fields(v, s)
        longs = admissible_longnames(rows, Segment)
        acc.excluded['long name not admissible (None, not unique, or class attribute)'] += len(rows) - len(longs)
        for (fname, i, ref, card) in rows:
            dt = lit.first_leaf_dt(T, v, ref)
            val = lit.valid(dt, rnd.randrange(2))
            sp = _spellings(fname, longs.get(fname), Segment, rnd)
            if s == 'MSH' and i in (1, 2):
                continue
            for rep in range(2 if thorough else 1):
                (A, ka), (B, kb), (C, kc) = rnd.choice(sp), rnd.choice(sp), rnd.choice(sp)
                if A == B:
                    B, kb = rnd.choice(sp)
                _emit(acc, {'kind': 'triple', 'level': 'field', 'v': v, 's': s, 'fname': fname, 'i': i, 'A': A, 'B': B,
                            'C': C, 'val': val, 'sigkey': '%s>%s>%s' % (ka, kb, kc)}, A != B)
            ch = T.ref_children(v, ref)
            if not ch:
                bdt = ref[2]
                if bdt and bdt != 'varies' and T.is_base(v, bdt):
                    # a base-datatype field has one component, named after the datatype, also reachable as <field>_1
                    csp = [(x, 'name') for x in case_variants(bdt, rnd) if spell_ok(Field, x)] + \
                          [(x, 'path') for x in case_variants('%s_1' % fname, rnd)]
                    (A, ka), (B, kb), (C, kc) = rnd.choice(csp), rnd.choice(csp), rnd.choice(csp)
                    if A == B:
                        B, kb = rnd.choice(csp)
                    _emit(acc, {'kind': 'triple', 'level': 'component', 'v': v, 's': s, 'fname': fname, 'i': i, 'cname': bdt,
                                'j': 1, 'A': A, 'B': B, 'C': C, 'val': val, 'sigkey': 'basefield:%s>%s>%s' % (ka, kb, kc)}, A != B)
                continue
            clongs = admissible_longnames(ch, Field)
            picks = ch if thorough else rnd.sample(list(ch), min(2, len(ch)))
            for (cname, j, cref, ccard) in picks:
                cval = lit.valid(lit.first_leaf_dt(T, v, cref), 0)
                csp = _spellings(cname, clongs.get(cname), Field, rnd, paths=['%s_%d' % (fname, j)])
                (A, ka), (B, kb), (C, kc) = rnd.choice(csp), rnd.choice(csp), rnd.choice(csp)
                if A == B:
                    B, kb = rnd.choice(csp)
                _emit(acc, {'kind': 'triple', 'level': 'component', 'v': v, 's': s, 'fname': fname, 'i': i, 'cname': cname,
                            'j': j, 'A': A, 'B': B, 'C': C, 'val': cval, 'sigkey': '%s>%s>%s' % (ka, kb, kc)}, A != B)
                sub = T.ref_children(v, cref)
                if not sub:
                    continue
                slongs = admissible_longnames(sub, Component)
                spicks = sub if thorough else [sub[rnd.randrange(len(sub))]]
                for (sname, k, sref, scard) in spicks:
                    sval = lit.valid(lit.first_leaf_dt(T, v, sref), 0)
                    # (a) addressed from the component: name / long name
                    ssp = _spellings(sname, slongs.get(sname), Component, rnd)
                    (A, ka), (B, kb), (C, kc) = rnd.choice(ssp), rnd.choice(ssp), rnd.choice(ssp)
                    _emit(acc, {'kind': 'triple', 'level': 'subcomponent', 'via': 'component', 'v': v, 's': s, 'fname': fname,
                                'i': i, 'cname': cname, 'j': j, 'sname': sname, 'k': k, 'A': A, 'B': B, 'C': C, 'val': sval,
                                'sigkey': 'comp:%s>%s>%s' % (ka, kb, kc)}, A != B)
                    # (b) addressed from the field by positional path
                    psp = [(x, 'path') for x in case_variants('%s_%d_%d' % (fname, j, k), rnd)]
                    (A, ka), (B, kb), (C, kc) = rnd.choice(psp), rnd.choice(psp), rnd.choice(psp)
                    _emit(acc, {'kind': 'triple', 'level': 'subcomponent', 'via': 'field-path', 'v': v, 's': s, 'fname': fname,
                                'i': i, 'cname': cname, 'j': j, 'sname': sname, 'k': k, 'A': A, 'B': B, 'C': C, 'val': sval,
                                'sigkey': 'fieldpath'}, True)
        for (fname, i, ref, card) in rows:
            if ref[2] == 'varies' and s != 'MSH':
                # components of a field of varying type: VARIES_<j> in any letter case, and the positional path
                j = 1 + rnd.randrange(3)
                vsp = [(x, 'name') for x in case_variants('VARIES_%d' % j, rnd)] + [(x, 'path') for x in case_variants('%s_%d' % (fname, j), rnd)]
                (A, ka), (B, kb), (C, kc) = rnd.choice(vsp), rnd.choice(vsp), rnd.choice(vsp)
                _emit2(acc, {'kind': 'triple', 'level': 'component', 'v': v, 's': s, 'fname': fname, 'i': i, 'cname': 'VARIES_%d' % j,
                             'j': j, 'A': A, 'B': B, 'C': C, 'val': 'v%d' % j, 'sigkey': 'varies:%s>%s>%s' % (ka, kb, kc)}, True)
        base_rows = [r for r in rows if r[1] and T.is_base(v, r[2][2]) and r[3][1] != 0 and s != 'MSH']
        if base_rows:
            r = base_rows[rnd.randrange(len(base_rows))]
            _emit(acc, {'kind': 'overflow', 'v': v, 's': s, 'fname': r[0], 'i': r[1], 'dt': r[2][2]}, True)
        # long names as the FIELDS table of the version spells them (independent of the row the segment table points at)
        fields_tab = T.lib(v).FIELDS
        own = [(r[0], r[1], fields_tab.get(r[0])) for r in rows if r[1]]
        cnt = collections.Counter(x[2][3].upper() for x in own if x[2] is not None and len(x[2]) > 3 and x[2][3])
        rownames = set(r[0].upper() for r in rows)
        for fname, i, fref in own:
            ln = fref[3] if fref is not None and len(fref) > 3 else None
            if s == 'MSH' or not ln or cnt[ln.upper()] != 1 or ln.upper() in rownames or not spell_ok(Segment, ln.lower()):
                continue
            _emit(acc, {'kind': 'longname', 'v': v, 's': s, 'fname': fname, 'i': i, 'long': ln,
                        'val': lit.valid(lit.first_leaf_dt(T, v, fref), 0)}, True)
        # negative space for this segment
        if T.seg_fields(v, s)[-1][2][2] == 'varies':
            # open-ended: positions beyond the table are children, but only when spelled as plain positive decimals
            first = rows[0]
            fill = lit.valid(lit.first_leaf_dt(T, v, first[2]), 0)
            beyond = rows[-1][1] + 1 + rnd.randrange(5)
            for bad, why in (('%s_0' % s, 'index-zero'), ('%s_0%d' % (s, beyond), 'index-with-leading-zero'), ('%s_+%d' % (s, beyond), 'index-with-sign'),
                             ('%s_-1' % s, 'index-negative'), ('%s_%d ' % (s, beyond), 'index-with-blank')):
                _emit(acc, {'kind': 'negative', 'on': 'segment', 'v': v, 's': s, 'fname': first[0], 'fill': fill, 'bad': bad, 'why': why}, True)
            vrow = rows[-1]
            for bad, why in (('VARIES_0', 'varies-index-zero'), ('VARIES_02', 'varies-index-with-leading-zero'), ('%s_0' % vrow[0], 'component-index-zero'),
                             ('VARIES_+1', 'varies-index-with-sign'), ('%s_1_1' % vrow[0], 'subcomponent-path-on-varies'),
                             ('%s_3_2' % vrow[0], 'subcomponent-path-on-varies')):
                _emit(acc, {'kind': 'negative', 'on': 'field', 'v': v, 's': s, 'fname': vrow[0], 'fill': 'a^b', 'bad': bad, 'why': why}, True)
            continue
        other = allsegs[(allsegs.index(s) + 1 + rnd.randrange(len(allsegs) - 1)) % len(allsegs)]
        last = rows[-1][1]
        first = rows[0]
        fill = lit.valid(lit.first_leaf_dt(T, v, first[2]), 0)
        orow = T.seg_fields(v, other)[0]
        probes = [('%s_%d' % (other, orow[1]), 'foreign-field'), ('%s_%d' % (s, last + 1 + rnd.randrange(40)), 'index-beyond-table'),
                  ('%s_0' % s, 'index-zero'), ('%s_x' % s, 'malformed'), ('QQQ_1', 'unknown-segment-field'),
                  ('%s_%d_1' % (s, first[1]), 'path-on-segment')]
        for bad, why in probes:
            bad = rnd.choice(case_variants(bad, rnd))
            _emit(acc, {'kind': 'negative', 'on': 'segment', 'v': v, 's': s, 'fname': first[0], 'fill': fill, 'bad': bad,
                        'why': why}, True)
        cx = [(r, T.ref_children(v, r[2])) for r in rows if T.ref_children(v, r[2])]
        # the path of a field whose number merely starts with this field's number (PID_3 asked for PID_30_1, PID_1 for PID_10_1)
        pairs = [(r, r2) for r in rows for r2 in rows if r[1] and r2[1] != r[1] and str(r2[1]).startswith(str(r[1])) and s != 'MSH' and r[3][1] != 0]
        for r, r2 in (rnd.sample(pairs, 2) if len(pairs) > 2 else pairs):
            fill = lit.valid(lit.first_leaf_dt(T, v, r[2]), 0)
            for bad in ('%s_1' % r2[0], '%s_1_1' % r2[0]):
                _emit(acc, {'kind': 'negative', 'on': 'field', 'v': v, 's': s, 'fname': r[0], 'fill': fill,
                            'bad': rnd.choice(case_variants(bad, rnd)), 'why': 'path-of-field-with-longer-number'}, True)
        if cx:
            # a field given another complex datatype after the tables were consulted (assigned, or passed to the constructor):
            # names, long names and paths of the NEW datatype address its components; the long names of the former one
            # designate nothing any more
            (fname, i, ref, card), ch = cx[rnd.randrange(len(cx))]
            dts = [d for d in T.complex_datatypes(v) if d != ref[2]]
            D = dts[rnd.randrange(len(dts))]
            dch = T.dt_children(v, D)
            dlongs = admissible_longnames(dch, Field)
            for (cname, j, cref, ccard) in rnd.sample(list(dch), min(2, len(dch))):
                cval = lit.valid(lit.first_leaf_dt(T, v, cref), 0)
                csp = _spellings(cname, dlongs.get(cname), Field, rnd, paths=['%s_%d' % (fname, j)])
                (A, ka), (B, kb), (C, kc) = rnd.choice(csp), rnd.choice(csp), rnd.choice(csp)
                _emit2(acc, {'kind': 'triple', 'level': 'component', 'v': v, 's': s, 'fname': fname, 'i': i, 'cname': cname, 'retype': D,
                             'retype_how': rnd.choice(['setter', 'ctor']), 'j': j, 'A': A, 'B': B, 'C': C, 'val': cval,
                             'sigkey': 'retyped:%s>%s>%s' % (ka, kb, kc)}, True)
            oldlongs = admissible_longnames(ch, Field)
            newnames = set(x.upper() for x in dlongs.values()) | set(r[3].upper() for r in [c[2] for c in dch] if len(r) > 3 and r[3])
            stale = [ln for ln in oldlongs.values() if ln.upper() not in newnames and spell_ok(Field, ln.lower())]
            if stale:
                _emit(acc, {'kind': 'negative', 'on': 'field', 'v': v, 's': s, 'fname': fname, 'retype': D,
                            'fill': lit.valid(lit.first_leaf_dt(T, v, dch[0][2]), 0), 'bad': rnd.choice(stale).lower(),
                            'why': 'long-name-of-the-former-datatype'}, True)
            # components as parents: an empty one of a base datatype, and one of a complex datatype
            for (cname, j, cref, ccard) in rnd.sample(list(ch), min(2, len(ch))):
                sub = T.ref_children(v, cref)
                cdt = cref[2]
                if not sub and not (cdt and T.is_base(v, cdt)):
                    continue
                foreign = []
                for d2 in T.complex_datatypes(v):
                    if d2 == cdt or d2 == ref[2]:
                        continue
                    for (n2, j2, r2, c2) in T.dt_children(v, d2):
                        same = (r2[2] == cdt)
                        foreign.append((n2, 'foreign-subcomponent-of-the-same-datatype' if same else 'foreign-subcomponent'))
                same = [x for x in foreign if x[1].endswith('same-datatype')]
                probes = ([same[rnd.randrange(len(same))]] if same else []) + [foreign[rnd.randrange(len(foreign))]] + \
                    [('%s_%d' % (cname, 1), 'path-on-component'), ('%s_%d' % (cdt, (len(sub) if sub else 1) + 1), 'subcomponent-index-beyond')]
                for bad, why in probes:
                    _emit(acc, {'kind': 'negative', 'on': 'component', 'v': v, 's': s, 'fname': fname, 'cname': cname,
                                'fill': None if not sub else lit.valid(lit.first_leaf_dt(T, v, cref), 0),
                                'bad': rnd.choice(case_variants(bad, rnd)), 'why': why + (':complex' if sub else ':base')}, True)
            (fname, i, ref, card), ch = cx[rnd.randrange(len(cx))]
            ncomp = len(ch)
            fill = lit.valid(lit.first_leaf_dt(T, v, ref), 0)
            dts = [d for d in T.complex_datatypes(v) if d != ref[2]]
            od = dts[rnd.randrange(len(dts))]
            probes = [('%s_%d' % (fname, ncomp + 1 + rnd.randrange(5)), 'component-beyond-datatype'),
                      ('%s_1' % od, 'foreign-component'), ('%s_%d' % (ref[2], ncomp + 1), 'component-index-beyond'),
                      ('%s_1_99' % fname, 'subcomponent-beyond'), ('%s_1_1_1' % fname, 'path-too-long'),
                      ('%s_%d_1' % (fname, ncomp + 1 + rnd.randrange(90)), 'subcomponent-path-through-missing-component'),
                      ('%s_0_1' % fname, 'subcomponent-path-through-component-zero'),
                      ('%s_x' % fname, 'malformed'), ('%s_0' % fname, 'component-index-zero'), ('%s_-1' % fname, 'component-index-negative'),
                      ('%s_1_0' % fname, 'subcomponent-index-zero'), ('%s_0' % ref[2], 'component-name-index-zero'), ('%s_%d_1' % (rows[0][0] if rows[0][0] != fname else rows[-1][0], 1), 'path-of-other-field')]
            for bad, why in probes:
                if bad.split('_')[0] == fname.split('_')[0] and why == 'path-of-other-field' and len(rows) == 1:
                    continue
                bad = rnd.choice(case_variants(bad, rnd))
                _emit(acc, {'kind': 'negative', 'on': 'field', 'v': v, 's': s, 'fname': fname, 'fill': fill, 'bad': bad,
                            'why': why}, True)


def plan(tier, seed):
    thorough = tier == 'thorough'
    n = 64 if thorough else 16
    return [{'k': k, 'of': n, 'seed': seed * 1000 + k * 17, 'thorough': thorough} for k in range(n)]
